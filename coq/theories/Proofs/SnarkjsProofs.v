From Coq Require Import ZArith List Bool Lia.
From PySnark.Model Require Import Lc.
From PySnark.Model Require Import Snarkjs.
Import ListNotations.
Open Scope Z_scope.

Lemma le_length n v : length (le n v) = n.
Proof. revert v; induction n; simpl; intros; [reflexivity|now rewrite IHn]. Qed.
Lemma unle_le n v : unle (le n v) = v mod 256 ^ Z.of_nat n.
Proof.
  revert v. induction n as [|n IH]; intros v.
  - simpl. now rewrite Z.mod_1_r.
  - cbn [le unle]. rewrite IH. rewrite Nat2Z.inj_succ, Z.pow_succ_r by lia.
    rewrite Z.rem_mul_r by (try apply Z.pow_nonzero; lia). reflexivity.
Qed.
Lemma unle_le_small n v : 0 <= v < 256 ^ Z.of_nat n -> unle (le n v) = v.
Proof. intros H. rewrite unle_le. apply Z.mod_small, H. Qed.
Lemma leqb_refl a : leqb a a = true. Proof. induction a; simpl; [reflexivity|]. now rewrite Z.eqb_refl. Qed.

Lemma take_app n a r : length a = n -> take n (a ++ r) = Some (a, r).
Proof.
  intros H. unfold take. rewrite app_length.
  replace (length a + length r <? n)%nat with false by (symmetry; apply Nat.ltb_ge; lia).
  rewrite <- H, firstn_app, Nat.sub_diag, firstn_all, skipn_app, Nat.sub_diag, skipn_all. simpl. now rewrite app_nil_r.
Qed.
Lemma uN_le n v r : 0 <= v < 256 ^ Z.of_nat n -> uN n (le n v ++ r) = Some (v, r).
Proof. intros H. unfold uN, pbind. rewrite take_app by apply le_length. unfold pret. now rewrite unle_le_small. Qed.
Lemma bind_uN {B} n v r (f : Z -> P B) bnd : 256 ^ Z.of_nat n = bnd -> 0 <= v < bnd -> pbind (uN n) f (le n v ++ r) = f v r.
Proof. intros <- H. unfold pbind at 1. now rewrite uN_le. Qed.
Lemma bind_take {B} n a r (f : list Z -> P B) : length a = n -> pbind (take n) f (a ++ r) = f a r.
Proof. intros H. unfold pbind. now rewrite take_app. Qed.
Lemma bind_guard {B} (f : unit -> P B) l : pbind (pguard true) f l = f tt l.
Proof. reflexivity. Qed.
Lemma bind_some {A B} (m : P A) (f : A -> P B) l a r : m l = Some (a, r) -> pbind m f l = f a r.
Proof. intros H. unfold pbind. now rewrite H. Qed.

(* a repeated item parser inverts a flat_map of item encoders *)
Lemma rep_enc {A B} (enc : A -> list Z) (dec : P B) (f : A -> B) (xs : list A) r :
  (forall a r', In a xs -> dec (enc a ++ r') = Some (f a, r')) ->
  rep (length xs) dec (flat_map enc xs ++ r) = Some (map f xs, r).
Proof.
  induction xs as [|x xs IH]; intros H; [reflexivity|].
  cbn [length rep flat_map map]. rewrite <- app_assoc.
  rewrite (bind_some _ _ _ _ _ (H x _ (or_introl eq_refl))).
  rewrite (bind_some _ _ _ _ _ (IH (fun a r' Hin => H a r' (or_intror Hin)))). reflexivity.
Qed.
Lemma section_ok {A} n (q : P A) body r a : length body = n -> q body = Some (a, []) -> section n q (body ++ r) = Some (a, r).
Proof. intros L Q. unfold section. rewrite bind_take by exact L. rewrite Q. reflexivity. Qed.

Definition P32 : 256 ^ Z.of_nat 4 = 4294967296 := eq_refl.
Definition P64 : 256 ^ Z.of_nat 8 = 18446744073709551616 := eq_refl.
Lemma P256 : 256 ^ Z.of_nat 32 = 2 ^ 256. Proof. reflexivity. Qed.

(* ------------------------------------------------------------------ witness.wtns *)
Theorem wtns_roundtrip p pubs privs :
  1 < p < 2 ^ 256 -> Z.of_nat (length pubs + length privs + 1) < 2 ^ 32 ->
  decode_wtns (encode_wtns p pubs privs) = Some ((p, 1 :: map (fun v => v mod p) (pubs ++ privs)), []).
Proof.
  intros Hp Hn. unfold encode_wtns, decode_wtns.
  set (n := Z.of_nat (length pubs + length privs + 1)) in *.
  assert (B32 : 2 ^ 32 = 4294967296) by reflexivity.
  assert (n0 : 0 < n) by (unfold n; lia).
  rewrite bind_take by reflexivity. rewrite leqb_refl, bind_guard.
  rewrite (bind_uN _ _ _ _ _ P32) by lia. change (2 =? 2) with true. rewrite bind_guard.
  rewrite (bind_uN _ _ _ _ _ P32) by lia. change (2 =? 2) with true. rewrite bind_guard.
  rewrite (bind_uN _ _ _ _ _ P32) by lia. change (1 =? 1) with true. rewrite bind_guard.
  rewrite (bind_uN _ _ _ _ _ P64) by lia.
  rewrite (bind_uN _ _ _ _ _ P32) by lia. change (40 =? 4 + 32 + 4) with true. rewrite bind_guard.
  change (Z.to_nat 32) with 32%nat.
  rewrite (bind_uN _ _ _ _ _ P256) by lia.
  rewrite (bind_uN _ _ _ _ _ P32) by lia.
  rewrite (bind_uN _ _ _ _ _ P32) by lia. change (2 =? 2) with true. rewrite bind_guard.
  rewrite (bind_uN _ _ _ _ _ P64) by lia. rewrite Z.eqb_refl, bind_guard.
  set (vals := 1 :: map (fun v => v mod p) (pubs ++ privs)).
  assert (Enc : le 32 1 ++ flat_map (fun v => le 32 (v mod p)) pubs ++ flat_map (fun v => le 32 (v mod p)) privs
                = flat_map (le 32) vals ++ []).
  { unfold vals. simpl flat_map. rewrite app_nil_r, map_app, flat_map_app. f_equal.
    rewrite !flat_map_concat_map, !map_map. reflexivity. }
  rewrite Enc.
  assert (Len : Z.to_nat n = length vals).
  { unfold vals, n. simpl length. rewrite map_length, app_length. lia. }
  assert (Rng : Forall (fun v => 0 <= v < p) vals).
  { unfold vals. constructor; [lia|]. apply Forall_forall. intros v Hv. apply in_map_iff in Hv. destruct Hv as [u [<- _]].
    apply Z.mod_pos_bound. lia. }
  rewrite Len.
  rewrite (bind_some _ _ _ _ _ (rep_enc (le 32) (uN 32) (fun v => v) vals []
             (fun a r' Hin => uN_le 32 a r' ltac:(rewrite P256; rewrite Forall_forall in Rng; specialize (Rng a Hin); lia)))).
  rewrite map_id.
  replace (forallb (fun v => v <? p) vals) with true.
  2:{ symmetry. apply forallb_forall. intros v Hv. rewrite Forall_forall in Rng. specialize (Rng v Hv). lia. }
  rewrite bind_guard. reflexivity.
Qed.

(* ------------------------------------------------------------------ circuit.r1cs *)
Section R1.
Variables p npub npriv : Z.
Hypothesis Hp : 1 < p < 2 ^ 256.
Hypothesis Hnp : 0 <= npub.
Hypothesis Hnw : 0 <= npriv.
Let nvars := npriv + npub + 1.
Hypothesis Hnv : nvars < 2 ^ 32.
(* every variable mentioned has been allocated *)
Definition var_in (k : var) : Prop := - npriv <= k <= npub.
Definition lc_in (l : lc) : Prop := Forall (fun kv => var_in (fst kv)) l /\ Z.of_nat (length l) < 2 ^ 32.
Definition con_in (c : lc * lc * lc) : Prop := lc_in (fst (fst c)) /\ lc_in (snd (fst c)) /\ lc_in (snd c).

Lemma wire_range k : var_in k -> 0 <= wire_of npub k < nvars.
Proof. unfold var_in, wire_of, nvars. intros H. destruct (Z.leb_spec 0 k); lia. Qed.

Lemma pterm_enc kv r : var_in (fst kv) ->
  pterm 32 p nvars (enc_term p npub kv ++ r) = Some ((wire_of npub (fst kv), snd kv mod p), r).
Proof.
  intros H. pose proof (wire_range _ H) as W. unfold pterm, enc_term. rewrite <- app_assoc.
  assert (B32 : 2 ^ 32 = 4294967296) by reflexivity.
  rewrite (bind_uN _ _ _ _ _ P32) by lia.
  pose proof (Z.mod_pos_bound (snd kv) p ltac:(lia)) as M.
  rewrite (bind_uN _ _ _ _ _ P256) by lia.
  replace ((snd kv mod p <? p) && (wire_of npub (fst kv) <? nvars)) with true by (symmetry; apply andb_true_intro; split; lia).
  reflexivity.
Qed.
Lemma plc_enc l r : lc_in l -> plc 32 p nvars (enc_lc p npub l ++ r) = Some (canon_lc p npub l, r).
Proof.
  intros [Hv Hl]. unfold plc, enc_lc. rewrite <- app_assoc.
  assert (B32 : 2 ^ 32 = 4294967296) by reflexivity.
  rewrite (bind_uN _ _ _ _ _ P32) by lia. rewrite Nat2Z.id.
  apply rep_enc. intros a r' Hin. apply pterm_enc. rewrite Forall_forall in Hv. apply Hv, Hin.
Qed.
Lemma pcon_enc c r : con_in c -> pcon 32 p nvars (enc_con p npub c ++ r) = Some (canon_con p npub c, r).
Proof.
  intros (A & B & C). unfold pcon, enc_con. rewrite <- !app_assoc.
  rewrite (bind_some _ _ _ _ _ (plc_enc _ _ A)), (bind_some _ _ _ _ _ (plc_enc _ _ B)), (bind_some _ _ _ _ _ (plc_enc _ _ C)).
  reflexivity.
Qed.

Lemma enc_lc_length l : Z.of_nat (length (enc_lc p npub l)) = 4 + 36 * Z.of_nat (length l).
Proof.
  unfold enc_lc. rewrite app_length, le_length.
  assert (E : length (flat_map (enc_term p npub) l) = (36 * length l)%nat).
  { induction l as [|kv l IH]; [reflexivity|]. cbn [flat_map length]. rewrite app_length, IH. unfold enc_term. rewrite app_length, !le_length. lia. }
  rewrite E. lia.
Qed.
Lemma enc_cons_length cons :
  Z.of_nat (length (flat_map (enc_con p npub) cons)) = 12 * Z.of_nat (length cons) + 36 * fold_right (fun c acc => nterms c + acc) 0 cons.
Proof.
  induction cons as [|c cons IH]; [reflexivity|]. cbn [flat_map fold_right length]. rewrite app_length, Nat2Z.inj_add, IH.
  unfold enc_con. rewrite !app_length, !Nat2Z.inj_add, !enc_lc_length. unfold nterms. lia.
Qed.

Theorem r1cs_roundtrip cons :
  Forall con_in cons -> Z.of_nat (length cons) < 2 ^ 32 ->
  12 * Z.of_nat (length cons) + 36 * fold_right (fun c acc => nterms c + acc) 0 cons < 2 ^ 64 ->
  decode_r1cs (encode_r1cs p npub npriv cons) =
  Some ({| r_prime := p; r_nwires := nvars; r_npubout := npub; r_npubin := 0; r_nprvin := 0; r_nlabels := 0;
           r_cons := map (canon_con p npub) cons; r_map := map (fun _ => 0) (seq 0 (Z.to_nat nvars)) |}, []).
Proof.
  intros Hc Hl Hs. unfold encode_r1cs, decode_r1cs. fold nvars.
  assert (B32 : 2 ^ 32 = 4294967296) by reflexivity.
  assert (B64 : 2 ^ 64 = 18446744073709551616) by reflexivity.
  assert (N0 : 0 < nvars) by (unfold nvars; lia).
  set (nlcs := fold_right (fun c acc => nterms c + acc) 0 cons) in *.
  assert (NL : 0 <= nlcs).
  { unfold nlcs. clear. induction cons; simpl; [lia|]. unfold nterms at 1. lia. }
  rewrite bind_take by reflexivity. rewrite leqb_refl, bind_guard.
  rewrite (bind_uN _ _ _ _ _ P32) by lia. change (1 =? 1) with true. rewrite bind_guard.
  rewrite (bind_uN _ _ _ _ _ P32) by lia. change (3 =? 3) with true. rewrite bind_guard.
  rewrite (bind_uN _ _ _ _ _ P32) by lia. change (1 =? 1) with true. rewrite bind_guard.
  rewrite (bind_uN _ _ _ _ _ P64) by lia.
  rewrite (bind_uN _ _ _ _ _ P32) by lia. change (64 =? 4 + 32 + 4 + 4 + 4 + 4 + 8 + 4) with true. rewrite bind_guard.
  change (Z.to_nat 32) with 32%nat.
  rewrite (bind_uN _ _ _ _ _ P256) by lia.
  rewrite (bind_uN _ _ _ _ _ P32) by lia.
  rewrite (bind_uN _ _ _ _ _ P32) by lia.
  rewrite (bind_uN _ _ _ _ _ P32) by lia.
  rewrite (bind_uN _ _ _ _ _ P32) by lia.
  rewrite (bind_uN _ _ _ _ _ P64) by lia.
  rewrite (bind_uN _ _ _ _ _ P32) by lia.
  rewrite (bind_uN _ _ _ _ _ P32) by lia. change (2 =? 2) with true. rewrite bind_guard.
  rewrite (bind_uN _ _ _ _ _ P64) by lia.
  (* constraints section: declared size = actual size, content parses to the canonical constraints *)
  rewrite Nat2Z.id.
  assert (Sec : section (Z.to_nat (12 * Z.of_nat (length cons) + 36 * nlcs)) (rep (length cons) (pcon 32 p nvars))
                  (flat_map (enc_con p npub) cons ++ (le 4 3 ++ le 8 (8 * nvars) ++ flat_map (fun _ => le 8 0) (seq 0 (Z.to_nat nvars))))
                = Some (map (canon_con p npub) cons, le 4 3 ++ le 8 (8 * nvars) ++ flat_map (fun _ => le 8 0) (seq 0 (Z.to_nat nvars)))).
  { apply section_ok.
    - unfold nlcs. rewrite <- (enc_cons_length cons). now rewrite Nat2Z.id.
    - rewrite <- (app_nil_r (flat_map (enc_con p npub) cons)). apply rep_enc.
      intros a r' Hin. apply pcon_enc. rewrite Forall_forall in Hc. apply Hc, Hin. }
  rewrite (bind_some _ _ _ _ _ Sec).
  rewrite (bind_uN _ _ _ _ _ P32) by lia. change (3 =? 3) with true. rewrite bind_guard.
  rewrite (bind_uN _ _ _ _ _ P64) by lia. rewrite Z.eqb_refl, bind_guard.
  (* wire-to-label map: nvars zero entries *)
  assert (Map : rep (Z.to_nat nvars) (uN 8) (flat_map (fun _ => le 8 0) (seq 0 (Z.to_nat nvars)) ++ [])
                = Some (map (fun _ => 0) (seq 0 (Z.to_nat nvars)), [])).
  { rewrite <- (seq_length (Z.to_nat nvars) 0) at 1. apply rep_enc. intros a r' _. apply uN_le. rewrite P64. lia. }
  rewrite app_nil_r in Map. rewrite (bind_some _ _ _ _ _ Map). reflexivity.
Qed.
End R1.
