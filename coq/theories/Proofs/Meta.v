(* Meta-theorems about stage 2 (interp): they hold for every command list, hence for the output of
   the generator on every program.
   - interp_oblivious: the shape of a completing run (variable kinds, constraints, result wires) is a
     function of the command list alone  (C06)
   - outs_coherent: every LinComb-typed result is coherent on the witness  (C04) *)
From Coq Require Import ZArith List Bool Lia Znumtheory.
From PySnark.Base Require Import FieldZ.
From PySnark.Model Require Import Lc Sym.
Import ListNotations.
Open Scope Z_scope.

Section M.
Context {p : Z}.
Local Notation cmd := (Sym.cmd p).
Local Notation step := (Sym.step p).
Local Notation interp := (Sym.interp p).

(* ------------------------------------------------------------------ shape / obliviousness *)
Definition shape := (list kind * list (lc * lc * lc) * list (Z * lc))%type.
Definition out_shape (o : Z * Z * lc) : Z * lc := (fst (fst o), snd o).
Definition shape_of (t : trace) : shape := (kinds t, cons t, map out_shape (outs t)).
Definition shape_step (sh : shape) (c : cmd) : shape :=
  let '(ks, cs, os) := sh in
  match c with
  | CAlloc k _ => (ks ++ [k], cs, os)
  | CEmit a b y => (ks, cs ++ [(wire a, wire b, wire y)], os)
  | CRaiseIf _ _ _ => sh
  | COut tag _ l => (ks, cs, os ++ [(plain_tag tag, l)])
  | COutLC tag x => (ks, cs, os ++ [(tag, wire x)])
  end.

Lemma step_raised ins ig t c e : raised t = Some e -> step ins ig t c = t.
Proof. unfold Sym.step. intros ->. reflexivity. Qed.
Lemma fold_raised ins ig cs t e : raised t = Some e -> fold_left (step ins ig) cs t = t.
Proof.
  revert t. induction cs as [|c cs IH]; simpl; intros t H; [reflexivity|].
  rewrite (step_raised _ _ _ _ _ H). apply IH, H.
Qed.
Lemma fold_not_raised ins ig cs t : raised (fold_left (step ins ig) cs t) = None -> raised t = None.
Proof. intros H. destruct (raised t) eqn:E; [|reflexivity]. rewrite (fold_raised _ _ _ _ _ E) in H. congruence. Qed.

Lemma step_shape ins ig t c : raised (step ins ig t c) = None -> shape_of (step ins ig t c) = shape_step (shape_of t) c.
Proof.
  unfold Sym.step, shape_of. destruct (raised t) eqn:Er; [intro H; congruence|].
  destruct c as [[|] h|a b y|b e u|tag v l|tag x]; cbn [shape_step kinds cons outs]; intros Hn;
    rewrite ?map_app; try reflexivity.
  destruct (beval p ins ig (st t) b); [discriminate|]. reflexivity.
Qed.

Lemma fold_shape ins ig cs t :
  raised (fold_left (step ins ig) cs t) = None ->
  shape_of (fold_left (step ins ig) cs t) = fold_left shape_step cs (shape_of t).
Proof.
  revert t. induction cs as [|c cs IH]; simpl; intros t Hn; [reflexivity|].
  rewrite (IH _ Hn). f_equal. apply step_shape. exact (fold_not_raised _ _ _ _ Hn).
Qed.

Theorem interp_oblivious cs ins1 ig1 ins2 ig2 :
  raised (interp ins1 ig1 cs) = None -> raised (interp ins2 ig2 cs) = None ->
  shape_of (interp ins1 ig1 cs) = shape_of (interp ins2 ig2 cs).
Proof. intros H1 H2. unfold Sym.interp in *. rewrite (fold_shape _ _ _ _ H1), (fold_shape _ _ _ _ H2). reflexivity. Qed.

(* ------------------------------------------------------------------ coherence of results *)
Definition ext (s s' : store) := (exists l, pubs s' = pubs s ++ l) /\ (exists l, privs s' = privs s ++ l).
Lemma ext_refl s : ext s s. Proof. split; exists []; now rewrite app_nil_r. Qed.
Lemma ext_trans a b c : ext a b -> ext b c -> ext a c.
Proof.
  intros [[l1 H1] [l2 H2]] [[l3 H3] [l4 H4]].
  split; [exists (l1 ++ l3)|exists (l2 ++ l4)]; rewrite ?H3, ?H4, ?H1, ?H2, app_assoc; reflexivity.
Qed.
Lemma step_ext ins ig t c : ext (st t) (st (step ins ig t c)).
Proof.
  unfold Sym.step. destruct (raised t); [apply ext_refl|].
  destruct c as [[|] h|a b y|b e u|tag v l|tag x]; cbn [st]; try apply ext_refl.
  - split; [eexists; reflexivity|exists []; now rewrite app_nil_r].
  - split; [exists []; now rewrite app_nil_r|eexists; reflexivity].
  - destruct (beval p ins ig (st t) b); apply ext_refl.
Qed.

Definition is_lc_tag (tag : Z) : bool := (1 <=? tag) && (tag <=? 3).
(* a LinComb-typed result is coherent on the witness as recorded when it was observed *)
Definition out_ok (s' : store) (o : Z * Z * lc) : Prop :=
  is_lc_tag (fst (fst o)) = true -> exists s, ext s s' /\ feq p (snd (fst o)) (eval (wval s) (snd o)).

Lemma out_ok_ext s s' o : ext s s' -> out_ok s o -> out_ok s' o.
Proof. intros E H T. destruct (H T) as [s0 [E0 F]]. exists s0. split; [eapply ext_trans; eauto|exact F]. Qed.

Lemma plain_tag_not_lc tag : is_lc_tag (plain_tag tag) = false.
Proof. unfold plain_tag, is_lc_tag. destruct ((1 <=? tag) && (tag <=? 3)) eqn:E; lia. Qed.

Lemma step_outs_ok (F : field_ok p) ins ig t c :
  Forall (out_ok (st t)) (outs t) -> Forall (out_ok (st (step ins ig t c))) (outs (step ins ig t c)).
Proof.
  intros H.
  assert (H' : Forall (out_ok (st (step ins ig t c))) (outs t)).
  { eapply Forall_impl; [|exact H]. intros o. apply out_ok_ext, step_ext. }
  unfold Sym.step in *. destruct (raised t); [exact H|].
  destruct c as [[|] h|a b y|b e u|tag v l|tag x]; cbn [st outs] in *; try exact H'.
  - destruct (beval p ins ig (st t) b); exact H.
  - apply Forall_app. split; [exact H|]. constructor; [|constructor].
    intros T. cbn [fst snd] in T. rewrite plain_tag_not_lc in T. discriminate.
  - apply Forall_app. split; [exact H|]. constructor; [|constructor].
    intros _. exists (st t). split; [apply ext_refl|]. cbn [fst snd]. apply (proj2 (good x) F).
Qed.

Theorem outs_coherent (F : field_ok p) cs ins ig :
  Forall (out_ok (st (interp ins ig cs))) (outs (interp ins ig cs)).
Proof.
  unfold Sym.interp.
  assert (G : forall cs t, Forall (out_ok (st t)) (outs t) ->
              Forall (out_ok (st (fold_left (step ins ig) cs t))) (outs (fold_left (step ins ig) cs t))).
  { clear cs. induction cs as [|c cs IH]; simpl; intros t H; [exact H|]. apply IH, step_outs_ok; assumption. }
  apply G. constructor.
Qed.

(* ------------------------------------------------------------------ ... on the *final* witness, for well-scoped command lists *)
Definition var_ok (s : store) (v : var) : Prop :=
  v = 0 \/ (0 < v <= Z.of_nat (length (pubs s))) \/ (0 < - v <= Z.of_nat (length (privs s))).
Definition lc_ok (s : store) (l : lc) : Prop := Forall (fun vc => var_ok s (fst vc)) l.
(* every wire handed to the backend or observed mentions allocated variables only (computable) *)
Fixpoint scoped_cmds (np nw : Z) (cs : list cmd) : bool :=
  match cs with
  | [] => true
  | CAlloc Pub _ :: cs' => scoped_cmds (np + 1) nw cs'
  | CAlloc Priv _ :: cs' => scoped_cmds np (nw + 1) cs'
  | c :: cs' => cmd_scoped np nw c && scoped_cmds np nw cs'
  end.

Lemma var_ok_ext s s' v : ext s s' -> var_ok s v -> var_ok s' v.
Proof.
  intros [[l1 H1] [l2 H2]] [H|[H|H]]; [left; exact H|right; left|right; right];
  rewrite ?H1, ?H2, app_length; lia.
Qed.
Lemma wval_ext s s' v : ext s s' -> var_ok s v -> wval s' v = wval s v.
Proof.
  intros [[l1 H1] [l2 H2]] H. unfold wval. destruct (v =? 0) eqn:E0; [reflexivity|].
  destruct H as [H|[H|H]]; [lia| |].
  - replace (0 <? v) with true by lia. rewrite H1. apply app_nth1. lia.
  - replace (0 <? v) with false by lia. rewrite H2. apply app_nth1. lia.
Qed.
Lemma eval_ext s s' l : ext s s' -> lc_ok s l -> eval (wval s') l = eval (wval s) l.
Proof.
  intros E H. induction H as [|vc l Hv _ IH]; [reflexivity|].
  unfold eval in *. cbn [fold_right]. rewrite IH, (wval_ext _ _ _ E Hv). reflexivity.
Qed.
Lemma lc_ok_ext s s' l : ext s s' -> lc_ok s l -> lc_ok s' l.
Proof. intros E H. eapply Forall_impl; [|exact H]. intros vc. apply var_ok_ext, E. Qed.
Lemma lc_okb_ok s l : lc_okb (Z.of_nat (length (pubs s))) (Z.of_nat (length (privs s))) l = true -> lc_ok s l.
Proof.
  unfold lc_okb, lc_ok. rewrite forallb_forall, Forall_forall. intros H vc Hin. specialize (H vc Hin).
  unfold var_okb in H. unfold var_ok. lia.
Qed.

Definition out_ok_final (s : store) (o : Z * Z * lc) : Prop :=
  is_lc_tag (fst (fst o)) = true -> lc_ok s (snd o) /\ feq p (snd (fst o)) (eval (wval s) (snd o)).
Lemma out_ok_final_ext s s' o : ext s s' -> out_ok_final s o -> out_ok_final s' o.
Proof.
  intros E H T. destruct (H T) as [L F]. split; [eapply lc_ok_ext; eauto|].
  rewrite (eval_ext _ _ _ E L). exact F.
Qed.

Lemma fold_outs_final (F : field_ok p) ins ig cs : forall t,
  scoped_cmds (Z.of_nat (length (pubs (st t)))) (Z.of_nat (length (privs (st t)))) cs = true ->
  Forall (out_ok_final (st t)) (outs t) ->
  Forall (out_ok_final (st (fold_left (step ins ig) cs t))) (outs (fold_left (step ins ig) cs t)).
Proof.
  induction cs as [|c cs IH]; simpl; intros t Sc H; [exact H|].
  destruct (raised t) eqn:Er.
  { rewrite (step_raised _ _ _ _ _ Er), (fold_raised _ _ _ _ _ Er). exact H. }
  assert (H' : Forall (out_ok_final (st (step ins ig t c))) (outs t)).
  { eapply Forall_impl; [|exact H]. intros o. apply out_ok_final_ext, step_ext. }
  apply IH.
  - unfold Sym.step. rewrite Er.
    destruct c as [[|] h|a b y|b e u|tag v l|tag x]; cbn [st pubs privs]; rewrite ?app_length; cbn [length];
      rewrite ?Nat2Z.inj_add; try (change (Z.of_nat 1) with 1); try exact Sc.
    + apply andb_prop in Sc. tauto.
    + destruct (beval p ins ig (st t) b); exact Sc.
    + apply andb_prop in Sc. tauto.
  - unfold Sym.step in *. rewrite Er in *.
    destruct c as [[|] h|a b y|b e u|tag v l|tag x]; cbn [st outs] in *; try exact H'.
    + destruct (beval p ins ig (st t) b); exact H.
    + apply Forall_app. split; [exact H|]. constructor; [|constructor].
      intros T. cbn [fst snd] in T. rewrite plain_tag_not_lc in T. discriminate.
    + apply Forall_app. split; [exact H|]. constructor; [|constructor].
      intros _. cbn [fst snd]. apply andb_prop in Sc. destruct Sc as [Sc _]. split.
      * apply lc_okb_ok. exact Sc.
      * apply (proj2 (good x) F).
Qed.

Theorem outs_coherent_final (F : field_ok p) cs ins ig :
  scoped_cmds 0 0 cs = true ->
  Forall (out_ok_final (st (interp ins ig cs))) (outs (interp ins ig cs)).
Proof. intros Sc. unfold Sym.interp. apply fold_outs_final; [exact F|exact Sc|constructor]. Qed.

(* ------------------------------------------------------------------ completeness transfer (C01)
   If, at the moment each constraint is emitted, the *values* of its three operands satisfy v * w = y (mod p)
   -- the integer-level identity the Python code itself checks in add_constraint -- then, for a well-scoped
   command list, the final recorded witness satisfies every emitted constraint *as a constraint on wires*. *)
Definition holds (w : var -> Z) (c : lc * lc * lc) : Prop :=
  feq p (eval w (fst (fst c)) * eval w (snd (fst c))) (eval w (snd c)).
Definition con_ok (s : store) (c : lc * lc * lc) : Prop :=
  lc_ok s (fst (fst c)) /\ lc_ok s (snd (fst c)) /\ lc_ok s (snd c) /\ holds (wval s) c.
Definition emit_vals_ok ins ig (s : store) (c : cmd) : Prop :=
  match c with
  | CEmit a b y => feq p (veval p ins ig s (sval a) * veval p ins ig s (sval b)) (veval p ins ig s (sval y))
  | _ => True
  end.
Fixpoint vjust ins ig (cs : list cmd) (t : trace) : Prop :=
  match cs with
  | [] => True
  | c :: cs' => (raised t = None -> emit_vals_ok ins ig (st t) c) /\ vjust ins ig cs' (step ins ig t c)
  end.

Lemma con_ok_ext s s' c : ext s s' -> con_ok s c -> con_ok s' c.
Proof.
  intros E (A & B & C & H). repeat split; try (eapply lc_ok_ext; eauto).
  unfold holds in *. rewrite !(eval_ext _ _ _ E) by assumption. exact H.
Qed.

Lemma fold_sat (F : field_ok p) ins ig cs : forall t,
  scoped_cmds (Z.of_nat (length (pubs (st t)))) (Z.of_nat (length (privs (st t)))) cs = true ->
  vjust ins ig cs t ->
  Forall (con_ok (st t)) (cons t) ->
  Forall (con_ok (st (fold_left (step ins ig) cs t))) (cons (fold_left (step ins ig) cs t)).
Proof.
  induction cs as [|c cs IH]; intros t Sc V H; [exact H|]. destruct V as [V1 V2]. simpl.
  destruct (raised t) eqn:Er.
  { rewrite (step_raised _ _ _ _ _ Er), (fold_raised _ _ _ _ _ Er). exact H. }
  specialize (V1 eq_refl). simpl in Sc.
  assert (H' : Forall (con_ok (st (step ins ig t c))) (cons t)).
  { eapply Forall_impl; [|exact H]. intros o. apply con_ok_ext, step_ext. }
  apply IH; [| exact V2 |].
  - unfold Sym.step. rewrite Er.
    destruct c as [[|] h|a b y|b e u|tag v l|tag x]; cbn [st pubs privs]; rewrite ?app_length; cbn [length];
      rewrite ?Nat2Z.inj_add; try (change (Z.of_nat 1) with 1); try exact Sc.
    + apply andb_prop in Sc. tauto.
    + destruct (beval p ins ig (st t) b); exact Sc.
    + apply andb_prop in Sc. tauto.
  - unfold Sym.step in *. rewrite Er in *.
    destruct c as [[|] h|a b y|b e u|tag v l|tag x]; cbn [st cons] in *; try exact H'.
    + apply Forall_app. split; [exact H|]. constructor; [|constructor].
      apply andb_prop in Sc. destruct Sc as [Sc _]. apply andb_prop in Sc. destruct Sc as [Sc Sy].
      apply andb_prop in Sc. destruct Sc as [Sa Sb].
      apply lc_okb_ok in Sa. apply lc_okb_ok in Sb. apply lc_okb_ok in Sy.
      repeat split; try assumption. unfold holds. cbn [fst snd].
      rewrite <- (proj2 (good a) F ins ig (st t)), <- (proj2 (good b) F ins ig (st t)), <- (proj2 (good y) F ins ig (st t)).
      exact V1.
    + destruct (beval p ins ig (st t) b); exact H.
Qed.

(* computable version of [vjust] (used in Examples and by the harness) *)
Definition feqb (a b : Z) : bool := (a - b) mod p =? 0.
Lemma feqb_feq a b : p <> 0 -> feqb a b = true -> feq p a b.
Proof.
  unfold feqb. intros Hp H. apply Z.eqb_eq in H. exists ((a - b) / p).
  pose proof (Z.div_mod (a - b) p Hp). lia.
Qed.
Fixpoint vjustb ins ig (cs : list cmd) (t : trace) : bool :=
  match cs with
  | [] => true
  | c :: cs' =>
      (match raised t, c with
       | None, CEmit a b y => feqb (veval p ins ig (st t) (sval a) * veval p ins ig (st t) (sval b)) (veval p ins ig (st t) (sval y))
       | _, _ => true end) && vjustb ins ig cs' (step ins ig t c)
  end.
Lemma vjustb_vjust ins ig cs : p <> 0 -> forall t, vjustb ins ig cs t = true -> vjust ins ig cs t.
Proof.
  intros Hp. induction cs as [|c cs IH]; intros t H; [exact I|]. cbn [vjustb] in H. apply andb_prop in H. destruct H as [H1 H2].
  split; [|apply IH; exact H2]. intros Er. rewrite Er in H1. destruct c; try exact I. cbn [emit_vals_ok]. apply feqb_feq; assumption.
Qed.

Theorem sat_final (F : field_ok p) cs ins ig :
  scoped_cmds 0 0 cs = true -> vjust ins ig cs (Sym.init) ->
  Forall (holds (wval (st (interp ins ig cs)))) (cons (interp ins ig cs)).
Proof.
  intros Sc V. pose proof (fold_sat F ins ig cs Sym.init Sc V (Forall_nil _)) as H.
  eapply Forall_impl; [|exact H]. intros c (_ & _ & _ & Hh). exact Hh.
Qed.
End M.
