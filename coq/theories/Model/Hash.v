(* C20: plain references of the hash gadgets, written from the algorithm descriptions (NOT from the traced code):
   Poseidon permutation / sponge over Z mod p with a parameter set (R_F full rounds, R_P partial rounds, width t,
   S-box x^a, round constants, MDS matrix), 10* padding; the subset-sum (GGH) hash. *)
From Coq Require Import ZArith List Bool Zpow_facts.
From PySnark Require Import GeneratedPoseidon.
Import ListNotations.
Open Scope Z_scope.

Section Ref.
Variable p : Z.
Variable ps : poseidon_params.
Definition fadd (a b : Z) := (a + b) mod p.
Definition fpow (x : Z) := Zpow_mod x (pa ps) p.
Definition dot (row st : list Z) : Z := fold_left (fun acc ab => (acc + fst ab * snd ab) mod p) (combine row st) 0.
Definition mds (st : list Z) : list Z := map (fun row => dot row st) (matrix ps).
Definition arc (rc st : list Z) : list Z := map (fun ab => fadd (fst ab) (snd ab)) (combine st rc).
Definition full (rc st : list Z) : list Z := mds (map fpow (arc rc st)).
Definition partial (rc st : list Z) : list Z := match arc rc st with [] => [] | x :: r => mds (fpow x :: r) end.
Definition permute_ref (st : list Z) : list Z :=
  let half := Z.to_nat (R_F ps / 2) in
  let rp := Z.to_nat (R_P ps) in
  let rcs := round_constants ps in
  let s1 := fold_left (fun s rc => full rc s) (firstn half rcs) (map (fun x => x mod p) st) in
  let s2 := fold_left (fun s rc => partial rc s) (firstn rp (skipn half rcs)) s1 in
  fold_left (fun s rc => full rc s) (firstn half (skipn (half + rp) rcs)) s2.

(* padding to a multiple of the rate r = t - 1: message, then 1, then zeros (at least the 1 is always added) *)
Definition pad (r : nat) (l : list Z) : list Z := l ++ [1] ++ repeat 0 (r - (length l) mod r - 1).
Fixpoint chunksZ (fuel n : nat) (l : list Z) : list (list Z) :=
  match fuel with O => [] | S f => match l with [] => [] | _ => firstn n l :: chunksZ f n (skipn n l) end end.
Definition hash_ref (msg : list Z) : list Z :=
  let r := Z.to_nat (pt ps - 1) in
  let padded := pad r msg in
  let st := fold_left (fun sp blk => match sp with [] => [] | c0 :: rate => permute_ref (c0 :: map (fun ab => fadd (fst ab) (snd ab)) (combine rate blk)) end)
                      (chunksZ (length padded) r padded) (repeat 0 (Z.to_nat (pt ps))) in
  tl st.
End Ref.
Definition ggh_ref (p : Z) (coeffs bits : list Z) : Z := fold_left (fun acc bc => (acc + fst bc * snd bc) mod p) (combine bits coeffs) 0.
