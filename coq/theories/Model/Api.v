(* Stage 1 of the model, part 2: Python-level values and operator dispatch for
   LinComb (runtime.py), LinCombBool (boolean.py), LinCombFxp (fixedpoint.py) and
   if_then_else (branching.py).  Every use of a Python operator on a value whose class is
   not statically known goes through [rec] = the dispatcher itself with one unit less fuel;
   exhausting the fuel yields the distinguishable error RecursionError_ (never observed). *)
From Coq Require Import ZArith List Bool.
From PySnark.Model Require Import Lc Sym Gadgets.
Import ListNotations.
Open Scope Z_scope.

Section WithP.
Context {p : Z}.
Local Notation slc := (Sym.slc p).
Local Notation G := (@Gadgets.G p).
Local Notation gst := (@Gadgets.gst p).

Inductive pyval :=
| PInt (z : Z)
| PFloat (m : Z) (e : Z)            (* the dyadic rational m * 2^-e, e >= 0 *)
| PLC (x : slc)                     (* LinComb *)
| PBool (o : Z) (x : slc)           (* LinCombBool: wrapper identity, .lc *)
| PFxp (o : Z) (x : slc)            (* LinCombFxp *)
| PList (l : list pyval) | PTuple (l : list pyval)
| PArr (row : bool) (l : list pyval)      (* pysnark.array.Array (row = an ArrayRow returned by a secret-index read) *)
| PNone | PNotImpl.

Inductive bop := OAdd | OSub | OMul | OTrueDiv | OFloorDiv | OMod | ODivmod | OPow | OLshift | ORshift
               | OAnd | OOr | OXor | OLt | OLe | OEq | ONe | OGt | OGe.
Inductive uop := UNeg | UPos | UAbs | UInvert.

Definition NI : G pyval := ret PNotImpl.
Definition lcr (m : G slc) : G pyval := r <- m ;; ret (PLC r).
Definition boolr (m : G slc) : G pyval := r <- m ;; ret (PBool 0 r).
Definition fxpr (m : G slc) : G pyval := r <- m ;; ret (PFxp 0 r).

Section Dispatch.
Variable c : cfg.
Variable rec : bop -> pyval -> pyval -> G pyval.     (* Python `a <op> b` *)
Let n := nbits c.
Definition R : Z := 2 ^ resolution c.                (* 1 << resolution *)

(* unary minus by class *)
Definition uneg (v : pyval) : G pyval :=
  match v with
  | PInt k => ret (PInt (- k)) | PFloat m e => ret (PFloat (- m) e)
  | PLC x => ret (PLC (neg x)) | PBool _ b => ret (PLC (neg b)) | PFxp _ f => ret (PFxp 0 (neg f))
  | _ => static_raise TypeError
  end.

Definition from_bits_v (bs : list slc) : pyval :=
  match bs with [] => PInt 0 | _ => PLC (from_bits bs) end.
(* Python slice bits[k:] *)
Definition py_slice_from {A} (l : list A) (k : Z) : list A :=
  if 0 <=? k then skipn (Z.to_nat k) l else skipn (Z.to_nat (Z.max 0 (Z.of_nat (length l) + k))) l.

(* result.check_positive() / check_zero() / check_nonzero() by class of the receiver *)
Definition m_check_positive (v : pyval) : G pyval :=
  match v with PLC x | PBool _ x | PFxp _ x => boolr (check_positive x n) | _ => static_raise AttributeError end.
Definition m_check_zero (v : pyval) : G pyval :=
  match v with PLC x | PBool _ x | PFxp _ x => boolr (check_zero x) | _ => static_raise AttributeError end.
Definition m_check_nonzero (v : pyval) : G pyval :=
  match v with PLC x | PFxp _ x => r <- check_zero x ;; ret (PBool 0 (bnot r)) | _ => static_raise AttributeError end.

(* LinComb.__divmod__ *)
Definition lc_divmod (x : slc) (o : pyval) : G pyval :=
  match o with
  | PInt k => qr <- divmod c x (constv k) ;; ret (PTuple [PLC (fst qr); PLC (snd qr)])
  | PLC y => qr <- divmod c x y ;; ret (PTuple [PLC (fst qr); PLC (snd qr)])
  | _ => NI
  end.
Definition tuple_nth (i : nat) (v : pyval) : G pyval :=
  match v with PTuple l => ret (nth i l PNone) | _ => ret v end.    (* NotImplemented is passed through *)

(* ---- LinComb methods: self = x ---- *)
Definition lc_dunder (op : bop) (x : slc) (o : pyval) : G pyval :=
  match op with
  | OAdd => match o with PInt k => ret (PLC (addc x k)) | PLC y => ret (PLC (add x y)) | _ => NI end
  | OSub => no <- uneg o ;; rec OAdd (PLC x) no
  | OMul => match o with PInt k => ret (PLC (scale x k)) | PLC y => lcr (mul x y) | _ => NI end
  | OTrueDiv => match o with
                | PInt k => if k =? 0 then static_raise ValueError else lcr (truediv_int x k)
                | PLC y => lcr (truediv x y)
                | _ => NI end
  | ODivmod => lc_divmod x o
  | OFloorDiv => r <- lc_divmod x o ;; tuple_nth 0 r
  | OMod => r <- lc_divmod x o ;; tuple_nth 1 r
  | OPow => match o with
            | PInt k => if k <? 0 then static_raise ValueError else
                        if 400 <? k then static_raise RuntimeError (* RecursionError; exponents in (400, ~990) not modelled *) else lcr (pow_nat x (Z.to_nat k))
            | PLC y => lcr (pow_lc c x y)
            | _ => NI end
  | OLshift => match o with
               | PInt k => if k <? 0 then static_raise ValueError else
                           if 100000 <? k then static_raise RuntimeError (* MemoryError/OverflowError: not modelled *) else ret (PLC (scale x (2 ^ k)))
               | PLC y => p2 <- pow_lc c (constv 2) y ;; lcr (mul x p2)
               | _ => NI end
  | ORshift => match o with
               | PInt k => if k <? 0 then static_raise ValueError else
                           bs <- to_bits x n ;; ret (from_bits_v (py_slice_from bs k))
               | PLC y => p2 <- pow_lc c (constv 2) y ;; qr <- divmod c x p2 ;; ret (PLC (fst qr))
               | _ => NI end
  | OAnd => match o with PInt k => lcr (privval (VLand (sval x) (VConst k))) | PLC y => lcr (land_lc c x y) | _ => NI end
  | OXor => match o with PInt k => lcr (privval (VLxor (sval x) (VConst k))) | PLC y => lcr (lxor_lc c x y) | _ => NI end
  | OOr => match o with PInt k => lcr (privval (VLor (sval x) (VConst k))) | PLC y => lcr (lor_lc c x y) | _ => NI end
  | OLt => match o with PFxp _ _ => NI | _ => d <- rec OSub o (PLC x) ;; d1 <- rec OSub d (PInt 1) ;; m_check_positive d1 end
  | OLe => d <- rec OSub o (PLC x) ;; m_check_positive d
  | OGt => match o with PFxp _ _ => NI | _ => d <- rec OSub (PLC x) o ;; d1 <- rec OSub d (PInt 1) ;; m_check_positive d1 end
  | OGe => d <- rec OSub (PLC x) o ;; m_check_positive d
  | OEq => d <- rec OSub (PLC x) o ;; m_check_zero d
  | ONe => d <- rec OSub (PLC x) o ;; m_check_nonzero d
  end.

(* ConstVal(other) *)
Definition constval_of (o : pyval) : G slc :=
  match o with PInt k => ret (constv k) | _ => static_raise RuntimeError end.

(* LinComb reflected methods: `o <op> x` after o.__op__(x) returned NotImplemented *)
Definition lc_rdunder (op : bop) (x : slc) (o : pyval) : G pyval :=
  match op with
  | OAdd | OMul | OAnd | OOr | OXor => lc_dunder op x o
  | OSub => rec OAdd o (PLC (neg x))
  | OTrueDiv | OFloorDiv | OMod | ODivmod | OPow | OLshift | ORshift =>
      k <- constval_of o ;; lc_dunder op k (PLC x)
  | OLt => lc_dunder OGt x o | OGt => lc_dunder OLt x o
  | OLe => lc_dunder OGe x o | OGe => lc_dunder OLe x o
  | OEq => lc_dunder OEq x o | ONe => lc_dunder ONe x o
  end.

(* ---- LinCombBool ---- *)
(* LinCombBool._ensurebool *)
Definition ensurebool (o : pyval) : G slc :=
  match o with
  | PBool _ b => ret b
  | PLC y => raise_if (BNot (is_boolv (sval y))) ValueError ;;; boolctor y
  | PInt k => if orb (k =? 0) (k =? 1) then boolctor (constv k) else static_raise ValueError
  | _ => static_raise RuntimeError
  end.
(* `1 if other else 0` for a non-LinComb, non-LinCombBool operand *)
Definition truthy (o : pyval) : G Z :=
  match o with
  | PInt k => ret (if k =? 0 then 0 else 1)
  | PFloat m _ => ret (if m =? 0 then 0 else 1)
  | PFxp _ _ => static_raise NotImplementedError        (* LinCombFxp.__bool__ -> bool(self.lc) -> LinComb.__bool__ raises *)
  | PList l | PTuple l => ret (match l with [] => 0 | _ => 1 end)
  | PNone => ret 0
  | PNotImpl => ret 1
  | PLC _ | PBool _ _ | PArr _ _ => ret 1
  end.
(* LinCombBool(lc, False): the value check of the constructor is unconditional *)
Definition mkbool (x : slc) : G pyval := raise_if (BNot (is_boolv (sval x))) ValueError ;;; ret (PBool 0 x).

Definition bool_dunder (op : bop) (b : slc) (o : pyval) : G pyval :=
  match op with
  | OAdd => rec OAdd (PLC b) o
  | OSub => rec OSub (PLC b) o
  | OMul => rec OMul (PLC b) o
  | OTrueDiv | OFloorDiv | OMod | ODivmod | OLshift | ORshift => NI
  | OAnd => match o with
            | PLC _ | PBool _ _ => o' <- ensurebool o ;; m <- mul b o' ;; mkbool m
            | _ => k <- truthy o ;; mkbool (scale b k) end
  | OXor => match o with
            | PLC _ | PBool _ _ => o' <- ensurebool o ;; m <- mul (scale b 2) o' ;; mkbool (sub (add b o') m)
            | _ => k <- truthy o ;; mkbool (sub (addc b k) (scale (scale b 2) k)) end
  | OOr => match o with
           | PLC _ | PBool _ _ => o' <- ensurebool o ;; m <- mul b o' ;; mkbool (sub (add b o') m)
           | _ => k <- truthy o ;; mkbool (sub (addc b k) (scale b k)) end
  | OEq | ONe | OLt | OLe | OGt | OGe => o' <- ensurebool o ;; lc_dunder op b (PLC o')
  | OPow => lc_dunder ONe b (PInt 0)
  end.
Definition bool_rdunder (op : bop) (b : slc) (o : pyval) : G pyval :=
  match op with
  | OAdd | OMul | OAnd => bool_dunder op b o
  | OSub => rec OAdd o (PLC (neg b))
  | OTrueDiv => NI
  | OLt => bool_dunder OGt b o | OGt => bool_dunder OLt b o
  | OLe => bool_dunder OGe b o | OGe => bool_dunder OLe b o
  | OEq => bool_dunder OEq b o | ONe => bool_dunder ONe b o
  | _ => NI     (* no __rfloordiv__, __rmod__, __rpow__, __rlshift__, __rrshift__, __ror__, __rxor__ *)
  end.

(* ---- LinCombFxp ---- *)
(* int(val * (1 << resolution)) for the dyadic val = m * 2^-e : truncation toward zero *)
Definition scale_float (m e : Z) : Z := Z.quot (m * R) (2 ^ e).
(* LinCombFxp.add_scaling *)
Definition add_scaling (o : pyval) : G pyval :=
  match o with
  | PLC _ | PBool _ _ => rec OMul o (PInt R)
  | PInt k => ret (PInt (k * R))
  | PFloat m e => ret (PInt (scale_float m e))
  | _ => static_raise RuntimeError
  end.
(* LinCombFxp(lc, scale): lc must be a LinComb *)
Definition mkfxp (v : pyval) (sc : bool) : G pyval :=
  match v with
  | PLC x => ret (PFxp 0 (if sc then scale x R else x))
  | _ => static_raise RuntimeError
  end.
(* LinCombFxp._ensurefxp *)
Definition ensurefxp (o : pyval) : G slc :=
  match o with
  | PFxp _ f => ret f
  | PLC y => ret (scale y R)
  | PBool _ b => ret (scale b R)
  | PInt k => ret (constv (k * R))
  | PFloat m e => ret (constv (scale_float m e))
  | _ => static_raise RuntimeError
  end.
Definition fxp_divmod (f : slc) (o : pyval) : G pyval :=
  r <- match o with
       | PInt _ | PFloat _ _ | PLC _ => d <- add_scaling o ;; lc_divmod f d
       | PFxp _ g => lc_divmod f (PLC g)
       | _ => NI end ;;
  match r with
  | PTuple [q; rm] => q' <- mkfxp q true ;; r' <- mkfxp rm false ;; ret (PTuple [q'; r'])
  | _ => ret r
  end.
Definition as_lc (v : pyval) : pyval := match v with PFxp _ f => PLC f | _ => v end.

Definition fxp_dunder (op : bop) (f : slc) (o : pyval) : G pyval :=
  match op with
  | OAdd => match o with
            | PInt _ | PFloat _ _ | PLC _ => o' <- add_scaling o ;; r <- rec OAdd (PLC f) o' ;; mkfxp r false
            | PFxp _ g => ret (PFxp 0 (add f g))
            | _ => NI end
  | OSub => no <- uneg o ;; rec OAdd (PFxp 0 f) no
  | OMul => match o with
            | PInt k => ret (PFxp 0 (scale f k))
            | PFloat m e => r <- lc_dunder OFloorDiv (scale f (scale_float m e)) (PInt R) ;; mkfxp r false
            | PLC y => fxpr (mul f y)
            | PFxp _ g => m <- mul f g ;; r <- lc_dunder OFloorDiv m (PInt R) ;; mkfxp r false
            | _ => NI end
  | OTrueDiv => match o with
                | PInt k => r <- lc_dunder OFloorDiv f (PInt k) ;; mkfxp r false
                | PFloat m e => r <- lc_dunder OFloorDiv (scale f R) (PInt (scale_float m e)) ;; mkfxp r false
                | PLC y => r <- lc_dunder OFloorDiv (scale f R) (PLC (scale y R)) ;; mkfxp r false
                | PFxp _ g => r <- lc_dunder OFloorDiv (scale f R) (PLC g) ;; mkfxp r false
                | _ => NI end
  | ODivmod => fxp_divmod f o
  | OFloorDiv => r <- fxp_divmod f o ;; tuple_nth 0 r
  | OMod => r <- fxp_divmod f o ;; tuple_nth 1 r
  | OLt | OLe | OEq | ONe | OGt | OGe => g <- ensurefxp o ;; lc_dunder op f (PLC g)
  | OPow => NI    (* handled by fxp_pow below (needs structural recursion on the exponent) *)
  | OLshift => r <- rec OLshift (PLC f) o ;; mkfxp r false
  | ORshift => r <- rec ORshift (PLC f) o ;; mkfxp r false
  | OAnd | OOr | OXor => NI
  end.
(* LinCombFxp.__pow__ with a public exponent k >= 2: res = self * self ** (k-1); res.lc.value %= modulus *)
Fixpoint fxp_pow (f : slc) (k : nat) : G slc :=
  match k with
  | O => s <- get ;; ret (scale (one s) R)
  | S O => ret f
  | S k' => g <- fxp_pow f k' ;; m <- mul f g ;; r <- lc_dunder OFloorDiv m (PInt R) ;;
            match r with PLC q => ret (recast_modp q) | _ => static_raise RuntimeError end
  end.
Definition fxp_dunder' (op : bop) (f : slc) (self : pyval) (o : pyval) : G pyval :=
  match op, o with
  | OPow, PInt k => if k <? 0 then static_raise ValueError else
                    if 400 <? k then static_raise RuntimeError else
                    if k =? 1 then ret self else fxpr (fxp_pow f (Z.to_nat k))
  | _, _ => fxp_dunder op f o
  end.
Definition fxp_rdunder (op : bop) (f : slc) (o : pyval) : G pyval :=
  match op with
  | OAdd | OMul => fxp_dunder op f o
  | OSub => rec OAdd o (PFxp 0 (neg f))
  | OTrueDiv | OFloorDiv | OMod => g <- ensurefxp o ;; fxp_dunder op g (PFxp 0 f)
  | OLt => fxp_dunder OGt f o | OGt => fxp_dunder OLt f o
  | OLe => fxp_dunder OGe f o | OGe => fxp_dunder OLe f o
  | OEq => fxp_dunder OEq f o | ONe => fxp_dunder ONe f o
  | _ => NI
  end.

(* ---- pysnark.array.Array: elementwise +, -, * (the element operations go through the dispatcher) ---- *)
Definition arr_dunder (op : bop) (l : list pyval) (o : pyval) : G pyval :=
  match op, o with
  | OSub, PArr _ m => r <- zipM (rec OSub) l m ;; ret (PArr false r)
  | OAdd, PArr _ m => r <- zipM (rec OAdd) l m ;; ret (PArr false r)
  | OAdd, (PInt _ | PLC _) => r <- mapM (fun sv => rec OAdd sv o) l ;; ret (PArr false r)
  | OMul, (PInt _ | PLC _) => r <- mapM (fun sv => rec OMul o sv) l ;; ret (PArr false r)      (* __mul__ = __rmul__: other * sv *)
  | (OSub | OAdd | OMul), _ => NI
  | _, _ => static_raise TypeError                    (* Array defines no other operator *)
  end.
Definition arr_rdunder (op : bop) (l : list pyval) (o : pyval) : G pyval :=
  match op with
  | OAdd | OMul => arr_dunder op l o
  | _ => NI
  end.

Definition same_class (a b : pyval) : bool :=
  match a, b with
  | PLC _, PLC _ | PBool _ _, PBool _ _ | PFxp _ _, PFxp _ _ | PArr _ _, PArr _ _ => true
  | _, _ => false
  end.
Definition is_cmp (op : bop) : bool := match op with OLt | OLe | OEq | ONe | OGt | OGe => true | _ => false end.

(* Python's binary operator protocol for the classes modelled *)
Definition dispatch (op : bop) (a b : pyval) : G pyval :=
  r <- match a with
       | PInt x => match b, op with                       (* plain Python ints (only what library code itself computes on ints) *)
                   | PInt y, OAdd => ret (PInt (x + y)) | PInt y, OSub => ret (PInt (x - y)) | PInt y, OMul => ret (PInt (x * y))
                   | PInt y, OLt => ret (PInt (if x <? y then 1 else 0)) | PInt y, OLe => ret (PInt (if x <=? y then 1 else 0))
                   | PInt y, OGt => ret (PInt (if y <? x then 1 else 0)) | PInt y, OGe => ret (PInt (if y <=? x then 1 else 0))
                   | PInt y, OEq => ret (PInt (if x =? y then 1 else 0)) | PInt y, ONe => ret (PInt (if x =? y then 0 else 1))
                   | PInt y, OAnd => ret (PInt (Z.land x y)) | PInt y, OOr => ret (PInt (Z.lor x y)) | PInt y, OXor => ret (PInt (Z.lxor x y))
                   | PInt y, OFloorDiv => if y =? 0 then static_raise ZeroDivisionError else ret (PInt (x / y))
                   | PInt y, OMod => if y =? 0 then static_raise ZeroDivisionError else ret (PInt (x mod y))
                   | PInt y, OLshift => if y <? 0 then static_raise ValueError else if 100000 <? y then static_raise RuntimeError else ret (PInt (x * 2 ^ y))
                   | PInt y, ORshift => if y <? 0 then static_raise ValueError else ret (PInt (Z.shiftr x y))
                   | _, _ => NI end
       | PLC x => lc_dunder op x b
       | PBool _ x => bool_dunder op x b
       | PFxp _ x => fxp_dunder' op x a b
       | PArr _ l => arr_dunder op l b
       | PFloat _ _ => NI                 (* int/float methods do not know the pysnark classes *)
       | _ => static_raise TypeError
       end ;;
  match r with
  | PNotImpl =>
      if same_class a b then static_raise TypeError else
      r2 <- match b with
            | PLC y => lc_rdunder op y a
            | PBool _ y => bool_rdunder op y a
            | PFxp _ y => fxp_rdunder op y a
            | PArr _ m => arr_rdunder op m a
            | _ => NI
            end ;;
      match r2 with
      | PNotImpl => if match op with OEq | ONe => true | _ => false end
                    then ret (PInt (match op with ONe => 1 | _ => 0 end))     (* identity comparison of distinct objects *)
                    else static_raise TypeError
      | _ => ret r2
      end
  | _ => ret r
  end.

Definition same_val (a b : pyval) : bool :=      (* Python `a is b` for the values the harness can build *)
  match a, b with
  | PLC x, PLC y => same_obj x y
  | PBool o1 _, PBool o2 _ | PFxp o1 _, PFxp o2 _ => andb (negb (o1 =? 0)) (o1 =? o2)
  | PNone, PNone => true
  | PInt a, PInt b => (a =? b) && (-5 <=? a) && (a <=? 256)     (* CPython's small-int cache *)
  | _, _ => false
  end.

(* branching.if_then_else with non-callable branches; [ident] = whether the initial `truev is falsev` test applies
   (it is made on the arguments as passed: for callable branches it compares the two callables, not their results) *)
Fixpoint ite_fuel (fuel : nat) (ident : bool) (cnd t f : pyval) : G pyval :=
  if andb ident (same_val t f) then ret t else
  match cnd with
  | PInt k => if orb (k =? 0) (k =? 1) then ret (if k =? 1 then t else f) else static_raise ValueError
  | PBool _ cb =>
      match t with
      | PList tl =>
          match fuel with O => static_raise RuntimeError | S fuel' =>
          match f with
          | PList fl => l <- zipM (ite_fuel fuel' true cnd) tl fl ;; ret (PList l)
          | _ => static_raise TypeError end end
      | _ =>
          f' <- match t with PFxp _ _ => g <- ensurefxp f ;; ret (PFxp 0 g) | _ => ret f end ;;
          d <- rec OSub t f' ;; m <- rec OMul cnd d ;; r <- rec OAdd f' m ;;
          match t, f, r with
          | PBool _ _, PBool _ _, PLC x => mkbool x              (* a selection between two booleans is a boolean: LinCombBool(ret, False) *)
          | _, _, _ => ret r
          end
      end
  | _ => static_raise RuntimeError
  end.
Definition if_then_else := ite_fuel 8 true.
Definition if_then_else_evaluated := ite_fuel 8 false.     (* after callable branches have been run *)

(* unary operators *)
Definition unop (op : uop) (v : pyval) : G pyval :=
  match op with
  | UNeg => uneg v
  | UPos => match v with PLC _ | PBool _ _ | PFxp _ _ | PInt _ | PFloat _ _ => ret v | _ => static_raise TypeError end
  | UAbs => match v with
            | PInt k => ret (PInt (Z.abs k)) | PFloat m e => ret (PFloat (Z.abs m) e)       (* plain Python numbers *)
            | PLC x | PBool _ x => ge0 <- lc_dunder OGe x (PInt 0) ;; if_then_else ge0 (PLC x) (PLC (neg x))
            | PFxp _ f => ge0 <- fxp_dunder OGe f (PInt 0) ;; if_then_else ge0 v (PFxp 0 (neg f))
            | _ => static_raise TypeError end
  | UInvert => match v with
               | PInt k => ret (PInt (- k - 1))                                            (* ~k on a plain int *)
               | PLC x => lcr (invert_lc c x)
               | PBool _ b => mkbool (bnot b)
               | _ => static_raise TypeError end
  end.
End Dispatch.

Fixpoint binop (c : cfg) (fuel : nat) (op : bop) (a b : pyval) : G pyval :=
  match fuel with
  | O => static_raise RuntimeError
  | S f' => dispatch c (binop c f') op a b
  end.
Definition FUEL : nat := 12.
Definition pyop (c : cfg) := binop c FUEL.
End WithP.
Arguments pyval : clear implicits.
