(* C18 model: pysnark.atexitmaybe (ExitOverrider + maybe) and runtime.final, over a table of how CPython ends a script.
   The table [cpython] (which interposed hooks a termination mode reaches, and the process status) is a model of the
   interpreter; it is validated only by the subprocess runs of the harness. *)
From Coq Require Import ZArith List Bool.
Import ListNotations.
Open Scope Z_scope.

Inductive earg := ANone | AInt (k : Z) | AStr | ATrue | AFalse
                | AEmptyStr | AEmptyList.      (* falsy objects that are neither None nor a number: sys.exit('') / sys.exit([]) end with status 1 *)
Inductive tmode :=
| FallOff                       (* script ends normally *)
| SysExit (a : earg)            (* sys.exit(a): goes through the interposed sys.exit *)
| RaiseSystemExit (a : earg)    (* raise SystemExit(a): sys.exit is not called *)
| BuiltinExit (a : earg)        (* site's exit(a) / quit(a): raises SystemExit directly *)
| Uncaught                      (* an ordinary uncaught exception: sys.excepthook is called *)
| KbdInterrupt                  (* uncaught KeyboardInterrupt: sys.excepthook is called *)
| OsExit (k : Z).               (* os._exit(k): no atexit handlers run at all *)

(* ExitOverrider state after the script body: (exitcode as recorded by the interposed sys.exit, exception recorded by excepthook) *)
Inductive rec_code := RNotCalled | RCode (a : earg).
Definition interposer (m : tmode) : rec_code * bool :=
  match m with
  | SysExit a => (RCode a, false)
  | Uncaught | KbdInterrupt => (RNotCalled, true)
  | _ => (RNotCalled, false)
  end.
Definition atexit_runs (m : tmode) : bool := match m with OsExit _ => false | _ => true end.
(* override.exitcode is None or override.exitcode == 0   (Python: False == 0, True != 0, "str" != 0) *)
Definition code_ok (r : rec_code) : bool :=
  match r with
  | RNotCalled | RCode ANone | RCode AFalse => true
  | RCode (AInt k) => k =? 0
  | RCode AStr | RCode ATrue | RCode AEmptyStr | RCode AEmptyList => false
  end.
(* maybe(final)() *)
Definition hook_calls_final (m : tmode) : bool :=
  atexit_runs m && (let '(r, ex) := interposer m in code_ok r && negb ex).
(* runtime.final: backend.prove() iff autoprove *)
Definition prove_runs (autoprove : bool) (m : tmode) : bool := hook_calls_final m && autoprove.

(* process exit status as the shell sees it *)
Definition arg_status (a : earg) : Z :=
  match a with ANone | AFalse => 0 | AInt k => k mod 256 | AStr | ATrue | AEmptyStr | AEmptyList => 1 end.
Definition status (m : tmode) : Z :=
  match m with
  | FallOff => 0
  | SysExit a | RaiseSystemExit a | BuiltinExit a => arg_status a
  | Uncaught => 1
  | KbdInterrupt => 130
  | OsExit k => k mod 256
  end.
(* the property: artefacts are produced iff the run is successful and automatic proving is on *)
Definition spec (autoprove : bool) (m : tmode) : bool := autoprove && (status m =? 0).

(* ---- histories: a script may call sys.exit(a) several times and swallow (or replace, in a finally block / __exit__) the
   SystemExit it raises; the interposed sys.exit records the argument of EVERY call (the last one wins), the excepthook
   records the exception the script finally dies of.  [caught] = arguments of the swallowed calls, in order. ---- *)
Record hrun := R { caught : list earg; final : tmode }.
Definition h_recorded (h : hrun) : rec_code * bool :=
  let '(r, ex) := interposer (final h) in
  (match r with RCode a => RCode a | RNotCalled => match rev (caught h) with a :: _ => RCode a | [] => RNotCalled end end, ex).
Definition h_hook_calls_final (h : hrun) : bool :=
  atexit_runs (final h) && (let '(r, ex) := h_recorded h in code_ok r && negb ex).
Definition h_prove_runs (autoprove : bool) (h : hrun) : bool := h_hook_calls_final h && autoprove.
Definition h_status (h : hrun) : Z := status (final h).
