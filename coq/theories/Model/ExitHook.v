(* C18 model: pysnark.atexitmaybe (ExitOverrider + maybe) and runtime.final, over a table of how CPython ends a script.
   The table [cpython] (which interposed hooks a termination mode reaches, and the process status) is a model of the
   interpreter; it is validated only by the subprocess runs of the harness. *)
From Coq Require Import ZArith List Bool.
Import ListNotations.
Open Scope Z_scope.

Inductive earg := ANone | AInt (k : Z) | AStr | ATrue | AFalse.
Inductive tmode :=
| FallOff                       (* script ends normally *)
| SysExit (a : earg)            (* sys.exit(a): goes through the interposed sys.exit *)
| RaiseSystemExit (a : earg)    (* raise SystemExit(a): sys.exit is not called *)
| BuiltinExit (a : earg)        (* site's exit(a) / quit(a): raises SystemExit directly *)
| Uncaught                      (* an ordinary uncaught exception: sys.excepthook is called *)
| KbdInterrupt                  (* uncaught KeyboardInterrupt: sys.excepthook is called *)
| OsExit (k : Z).               (* os._exit(k): no atexit handlers run at all *)

(* ExitOverrider state after the script body: (exitcode as recorded by the interposed sys.exit, exception recorded by excepthook) *)
Inductive rec_code := RNotCalled | RCode (a : earg).
Definition interposer (m : tmode) : rec_code * bool :=
  match m with
  | SysExit a => (RCode a, false)
  | Uncaught | KbdInterrupt => (RNotCalled, true)
  | _ => (RNotCalled, false)
  end.
Definition atexit_runs (m : tmode) : bool := match m with OsExit _ => false | _ => true end.
(* override.exitcode is None or override.exitcode == 0   (Python: False == 0, True != 0, "str" != 0) *)
Definition code_ok (r : rec_code) : bool :=
  match r with
  | RNotCalled | RCode ANone | RCode AFalse => true
  | RCode (AInt k) => k =? 0
  | RCode AStr | RCode ATrue => false
  end.
(* maybe(final)() *)
Definition hook_calls_final (m : tmode) : bool :=
  atexit_runs m && (let '(r, ex) := interposer m in code_ok r && negb ex).
(* runtime.final: backend.prove() iff autoprove *)
Definition prove_runs (autoprove : bool) (m : tmode) : bool := hook_calls_final m && autoprove.

(* process exit status as the shell sees it *)
Definition arg_status (a : earg) : Z :=
  match a with ANone | AFalse => 0 | AInt k => k mod 256 | AStr | ATrue => 1 end.
Definition status (m : tmode) : Z :=
  match m with
  | FallOff => 0
  | SysExit a | RaiseSystemExit a | BuiltinExit a => arg_status a
  | Uncaught => 1
  | KbdInterrupt => 130
  | OsExit k => k mod 256
  end.
(* the property: artefacts are produced iff the run is successful and automatic proving is on *)
Definition spec (autoprove : bool) (m : tmode) : bool := autoprove && (status m =? 0).
