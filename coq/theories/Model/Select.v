(* C19 model: the three-stage backend selection at the top of pysnark/runtime.py.
   [order] is the list `backends` translated from the source on every run (Generated.backends).
   [preimported m] : module m is in sys.modules when pysnark.runtime is imported;
   [loadable m]    : importlib.import_module(m) succeeds. *)
From Coq Require Import ZArith List Bool String.
Import ListNotations.
Open Scope string_scope.

Inductive outcome :=
| Selected (name modname : string) (unknown_msg : bool) (load_errors : list string)   (* messages printed on the way *)
| ImportFails (modname : string)                         (* the ImportError of a named backend propagates *)
| NoBackend (load_errors : list string).                 (* nothing loadable at all *)

Section Sel.
Variable order : list (string * string).
Variable preimported : string -> bool.
Variable loadable : string -> bool.

(* stage 1: for mod in backends: if mod[1] in sys.modules: ...; break *)
Definition stage1 : option (string * string) := find (fun nm => preimported (snd nm)) order.
(* stage 2: for mod in backends: if env == mod[0]: import (no break; names are unique) *)
Fixpoint stage2 (env : string) (l : list (string * string)) (acc : option (string * string)) : option (string * string) + string :=
  match l with
  | [] => inl acc
  | nm :: l' => if String.eqb env (fst nm) then (if loadable (snd nm) then stage2 env l' (Some nm) else inr (snd nm)) else stage2 env l' acc
  end.
(* stage 3 (not under IPython): first loadable backend in order; every failure is printed *)
Fixpoint stage3 (l : list (string * string)) (errs : list string) : option (string * string) * list string :=
  match l with
  | [] => (None, errs)
  | nm :: l' => if loadable (snd nm) then (Some nm, errs) else stage3 l' (errs ++ [snd nm])%list
  end.

Definition select (env : option string) : outcome :=
  match stage1 with
  | Some nm => Selected (fst nm) (snd nm) false []
  | None =>
      let after2 := match env with
                    | None => inl (None, false)
                    | Some e => match stage2 e order None with
                                | inr m => inr m
                                | inl (Some nm) => inl (Some nm, false)
                                | inl None => inl (None, true) end
                    end in
      match after2 with
      | inr m => ImportFails m
      | inl (Some nm, u) => Selected (fst nm) (snd nm) u []
      | inl (None, u) => match stage3 order [] with
                         | (Some nm, errs) => Selected (fst nm) (snd nm) u errs
                         | (None, errs) => NoBackend errs end
      end
  end.
Definition known (env : string) : bool := existsb (fun nm => String.eqb env (fst nm)) order.
End Sel.
