(* Stage 1 of the model, part 3: the program language shared with the harness, its generator,
   and [model_run] = interp o gen. *)
From Coq Require Import ZArith List Bool.
From PySnark.Model Require Import Lc Sym Gadgets Api.
Import ListNotations.
Open Scope Z_scope.

Inductive inkind := IPriv | IPub | IPrivBool | IPubBool | IPrivFxp | IPubFxp.
Inductive meth :=
| MToBits (k : option nat) | MFromBits
| MCheckPositive (k : option nat) | MAssertPositive (k : option nat)
| MCheckZero | MCheckNonzero | MAssertZero | MAssertNonzero
| MAssertRange | MAssertLt | MAssertLe | MAssertEq | MAssertNe | MAssertGt | MAssertGe
| MVal.

Inductive lit := LInt (z : Z) | LFloat (m e : Z).
Inductive stmt :=
| SInput (d : nat) (k : inkind) (i : nat)
| SConst (d : nat) (v : lit)
| SConstVal (d : nat) (k : Z)
| SUn (d : nat) (op : uop) (a : nat)
| SBin (d : nat) (op : bop) (a b : nat)
| SMeth (d : nat) (m : meth) (recv : nat) (args : list nat)
| SIte (d : nat) (cnd t f : nat)
| SList (d : nat) (l : list nat)
| SIndex (d : nat) (l : nat) (i : nat)                (* plain list indexing with a public index *)
| SGuarded (cnd : nat) (body : list stmt)            (* runtime.guarded(cond)(lambda: body)() *)
| SIgnore (b : bool)                                 (* runtime.ignore_errors(b) *)
| SIteLazy (d cnd : nat) (tb : list stmt) (tr : nat) (fb : list stmt) (fr : nat)
                                                     (* if_then_else(cond, lambda: tb; regs[tr], lambda: fb; regs[fr]) *)
| SProbe.                                            (* harness probe: (guard is None, guard.value, _ignore_errors) *)

Section WithP.
Context {p : Z}.
Local Notation slc := (Sym.slc p).
Local Notation G := (@Gadgets.G p).
Local Notation G1 := (@Gadgets.M p true).      (* statements: may use the block API / ignore_errors *)
Local Notation gst := (@Gadgets.gst p).
Local Notation pyval := (Api.pyval p).
Local Notation cmd := (Sym.cmd p).

Definition regs := list (nat * pyval).
Fixpoint rget (r : regs) (i : nat) : pyval :=
  match r with [] => PNone | (j, v) :: r' => if Nat.eqb i j then v else rget r' i end.
Definition rset (r : regs) (i : nat) (v : pyval) : regs := (i, v) :: r.

Definition name_lc (x : slc) : G slc := if oid x =? 0 then o <- fresh_oid ;; ret (with_oid x o) else ret x.
(* objects get an identity when they are first stored in a register *)
Fixpoint name_val (v : pyval) : G pyval :=
  match v with
  | PLC x => x' <- name_lc x ;; ret (PLC x')
  | PBool o x => o' <- (if o =? 0 then fresh_oid else ret o) ;; x' <- name_lc x ;; ret (PBool o' x')
  | PFxp o x => o' <- (if o =? 0 then fresh_oid else ret o) ;; x' <- name_lc x ;; ret (PFxp o' x')
  | PList l => l' <- (fix go (l : list pyval) : G (list pyval) :=
                        match l with [] => ret [] | a :: l0 => b <- name_val a ;; r <- go l0 ;; ret (b :: r) end) l ;; ret (PList l')
  | PTuple l => l' <- (fix go (l : list pyval) : G (list pyval) :=
                        match l with [] => ret [] | a :: l0 => b <- name_val a ;; r <- go l0 ;; ret (b :: r) end) l ;; ret (PTuple l')
  | _ => ret v
  end.

(* what the harness observes of a value *)
Fixpoint norm_float (fuel : nat) (m e : Z) : Z * Z :=
  match fuel with O => (m, e) | S f => if (e <=? 0) || Z.odd m then (m, e) else norm_float f (m / 2) (e - 1) end.
Fixpoint out_val (v : pyval) : list cmd :=
  match v with
  | PInt k => [COut 0 (VConst k) []]
  | PLC x => [COutLC 1 x]
  | PBool _ x => [COutLC 2 x]
  | PFxp _ x => [COutLC 3 x]
  | PFloat m e => let '(m', e') := if m =? 0 then (0, 0) else norm_float 2000 m e in [COut 4 (VConst m') [(0, e')]]
  | PList l => COut 5 (VConst (Z.of_nat (length l))) [] :: flat_map out_val l
  | PTuple l => COut 6 (VConst (Z.of_nat (length l))) [] :: flat_map out_val l
  | PNone => [COut 7 (VConst 0) []]
  | PNotImpl => [COut 8 (VConst 0) []]
  end.
Definition emit_out (v : pyval) : G unit := fold_right (fun (c : cmd) (k : G unit) => Emit c k) (Ret tt) (out_val v).
Definition out_globals (s : gst) : list cmd :=
  [COut (-1) (VB2Z (ignore s)) (match guard s with Some g => wire g | None => [] end);
   COut (-2) (VConst (match guard s with Some _ => 1 | None => 0 end)) (wire (one s))].

Section Gen.
Variable c : cfg.
Let n := nbits c.
Let Rz : Z := R c.
Definition op2 := pyop (p:=p) c.

Definition gen_input (k : inkind) (i : nat) : G pyval :=
  match k with
  | IPriv => lcr (privval (VIn i))
  | IPub => lcr (pubval (VIn i))
  | IPrivBool => boolr (privbool (VIn i))
  | IPubBool => boolr (pubbool (VIn i))
  | IPrivFxp => fxpr (privval (VMul (VIn i) (VConst Rz)))     (* PrivValFxp(int): add_scaling then PrivVal *)
  | IPubFxp => fxpr (pubval (VMul (VIn i) (VConst Rz)))
  end.

(* LinComb._ensurelc *)
Definition ensurelc (v : pyval) : G slc :=
  match v with PLC x => ret x | PInt k => ensurelc_int k | _ => static_raise RuntimeError end.
Definition optk (k : option nat) : nat := match k with Some k' => k' | None => n end.
Definition unit_none (m : G unit) : G pyval := m ;;; ret PNone.

Definition assert_by (m : meth) (x y : slc) : G unit :=
  match m with
  | MAssertLt => assert_lt c x y | MAssertLe => assert_le c x y
  | MAssertEq => assert_eq x y | MAssertNe => assert_ne x y
  | MAssertGt => assert_gt c x y | MAssertGe => assert_ge c x y
  | _ => ret tt
  end.

Definition gen_meth (m : meth) (recv : pyval) (args : list pyval) : G pyval :=
  match m, recv, args with
  (* classmethod LinComb.from_bits(list) : receiver is the list *)
  | MFromBits, PList l, [] =>
      match l with
      | [] => ret (PInt 0)
      | b0 :: l' =>
          t0 <- op2 OMul b0 (PInt 1) ;; acc0 <- op2 OAdd (PInt 0) t0 ;;
          (fix go (acc : pyval) (bs : list pyval) (i : Z) : G pyval :=
             match bs with [] => ret acc | b :: bs' => t <- op2 OMul b (PInt (2 ^ i)) ;; a <- op2 OAdd acc t ;; go a bs' (i + 1) end) acc0 l' 1
      end
  (* LinComb *)
  | MToBits k, PLC x, [] => bs <- to_bits x (optk k) ;; ret (PList (map (PBool 0) bs))
  | MCheckPositive k, PLC x, [] => boolr (check_positive x (optk k))
  | MAssertPositive k, PLC x, [] => unit_none (assert_positive x (optk k))
  | MCheckZero, PLC x, [] => boolr (check_zero x)
  | MCheckNonzero, PLC x, [] => r <- check_zero x ;; ret (PBool 0 (bnot r))
  | MAssertZero, PLC x, [] => unit_none (assert_zero x)
  | MAssertNonzero, PLC x, [] => unit_none (assert_nonzero x)
  | MAssertRange, PLC x, [lo; hi] => l <- ensurelc lo ;; h <- ensurelc hi ;; unit_none (assert_range c x l h)
  | (MAssertLt | MAssertLe | MAssertEq | MAssertNe | MAssertGt | MAssertGe), PLC x, [o] =>
      y <- ensurelc o ;; unit_none (assert_by m x y)
  | MVal, PLC x, [] => lcval x ;;; emitc (COut 0 (sval x) []) ;;; ret PNone
  (* LinCombBool *)
  | MCheckPositive None, PBool _ b, [] => boolr (check_positive b n)
  | MAssertPositive None, PBool _ b, [] => unit_none (assert_positive b n)
  | MCheckZero, PBool _ b, [] => boolr (check_zero b)
  | MAssertZero, PBool _ b, [] => unit_none (assert_zero b)
  | MAssertNonzero, PBool _ b, [] => unit_none (assert_nonzero b)
  | (MAssertLt | MAssertLe | MAssertEq | MAssertNe | MAssertGt | MAssertGe), PBool _ b, [o] =>
      y <- ensurebool o ;; unit_none (assert_by m b y)
  | MVal, PBool _ b, [] => lcval b ;;; emitc (COut 0 (sval b) []) ;;; ret PNone
  (* LinCombFxp *)
  | MCheckPositive None, PFxp _ f, [] => boolr (check_positive f n)
  | MAssertPositive None, PFxp _ f, [] => unit_none (assert_positive f n)
  | MCheckZero, PFxp _ f, [] => boolr (check_zero f)
  | MCheckNonzero, PFxp _ f, [] => r <- check_zero f ;; ret (PBool 0 (bnot r))
  | MAssertZero, PFxp _ f, [] => unit_none (assert_zero f)
  | MAssertNonzero, PFxp _ f, [] => unit_none (assert_nonzero f)
  | MAssertRange, PFxp _ f, [lo; hi] => l <- ensurefxp c lo ;; h <- ensurefxp c hi ;; unit_none (assert_range c f l h)
  | (MAssertLt | MAssertLe | MAssertEq | MAssertNe | MAssertGt | MAssertGe), PFxp _ f, [o] =>
      y <- ensurefxp c o ;; unit_none (assert_by m f y)
  | MVal, PFxp _ f, [] => lcval f ;;; emitc (COut 9 (sval f) []) ;;; ret PNone
  | _, _, _ => static_raise AttributeError
  end.

Fixpoint gen_stmt (st : stmt) (r : regs) {struct st} : G regs :=
  let store d v := (v' <- name_val v ;; emit_out v' ;;; ret (rset r d v')) in
  match st with
  | SInput d k i => v <- gen_input k i ;; store d v
  | SConst d v => store d (match v with LInt z => PInt z | LFloat m e => PFloat m e end)
  | SConstVal d k => store d (PLC (constv k))
  | SUn d op a => v <- unop c op2 op (rget r a) ;; store d v
  | SBin d op a b => v <- op2 op (rget r a) (rget r b) ;; store d v
  | SMeth d m recv args => v <- gen_meth m (rget r recv) (map (rget r) args) ;; store d v
  | SIte d cn t f => v <- (if Nat.eqb t f then ret (rget r t)      (* same register: `truev is falsev` *)
                           else if_then_else c op2 (rget r cn) (rget r t) (rget r f)) ;; store d v
  | SList d l => store d (PList (map (rget r) l))
  | SIndex d l i => match rget r l with
                    | PList vs | PTuple vs => if Nat.ltb i (length vs) then store d (nth i vs PNone) else static_raise IndexError
                    | _ => static_raise TypeError end
  | SGuarded cn body =>
      match rget r cn with
      | PLC g | PBool _ g =>          (* add_guard unwraps a LinCombBool *)
          guarded c g ((fix go (b : list stmt) (r0 : regs) : G regs :=
                          match b with [] => ret r0 | s1 :: b' => r1 <- gen_stmt s1 r0 ;; go b' r1 end) body r)
      | PInt k => if k =? 0 then static_raise RuntimeError else if k =? 1 then
                    (fix go (b : list stmt) (r0 : regs) : G regs :=
                          match b with [] => ret r0 | s1 :: b' => r1 <- gen_stmt s1 r0 ;; go b' r1 end) body r
                  else static_raise RuntimeError
      | _ => static_raise TypeError
      end
  | SIgnore b => static_raise RuntimeError      (* a top-level statement (gen_top); not modelled inside a guarded body *)
  | SIteLazy d cn tb tr fb fr =>
      (* truev and falsev are two distinct callables; an int condition would return the callable itself (not modelled) *)
      match rget r cn with
      | PBool _ cb =>
          let body b r0 := (fix go (b : list stmt) (r0 : regs) : G regs :=
                              match b with [] => ret r0 | s1 :: b' => r1 <- gen_stmt s1 r0 ;; go b' r1 end) b r0 in
          r1 <- guarded c cb (body tb r) ;;
          let tv := rget r1 tr in
          nc <- mkbool (bnot cb) ;;                                     (* ~cond *)
          r2 <- guarded c (match nc with PBool _ x => x | _ => cb end) (body fb r1) ;;
          let fv := rget r2 fr in
          v <- if_then_else_evaluated c op2 (rget r cn) tv fv ;;
          v' <- name_val v ;; emit_out v' ;;; ret (rset r2 d v')
      | PInt _ => static_raise NotImplementedError
      | _ => static_raise RuntimeError
      end
  | SProbe => s <- get ;;
      emitc (COut 10 (match guard s with Some g => sval g | None => VConst (-1) end) []) ;;;
      emitc (COut 11 (VB2Z (ignore s)) []) ;;; ret r
  end.
(* top level: level-true statements (ignore_errors, block API) and everything else lifted *)
Definition gen_top (st : stmt) (r : regs) : G1 regs :=
  match st with
  | SIgnore b => s <- get ;; set_globals (guard s) (if b then BTrue else BFalse) (one s) ;;; ret r
  | _ => lift (gen_stmt st r)
  end.
Fixpoint gen_stmts (pr : list stmt) (r : regs) : G1 regs :=
  match pr with [] => ret r | s1 :: pr' => r1 <- gen_top s1 r ;; gen_stmts pr' r1 end.

Definition init_gst : gst :=
  {| npub := 0; npriv := 0; noid := 10; guard := None; ignore := BIgn0;
     one := ONE_SAFE; unw := None |}.
Definition gen_prog (pr : list stmt) : list cmd :=
  match run (gen_stmts pr []) init_gst with
  | (inl _, s, cs) => cs ++ out_globals s
  | (inr _, _, cs) => cs
  end.
Definition model_run (pr : list stmt) (ins : list Z) (ign0 : bool) : trace := interp p ins ign0 (gen_prog pr).
Definition digests (pr : list stmt) (ins : list Z) (ign0 : bool) : list Z :=
  let t := model_run pr ins ign0 in
  [digest_vars p t; digest_cons p t; digest_outs p t; digest_exn p t].
End Gen.
End WithP.
