(* Stage 1 of the model, part 3: the program language shared with the harness, its generator,
   and [model_run] = interp o gen. *)
From Coq Require Import ZArith List Bool.
From PySnark Require Import GeneratedPoseidon.
From PySnark.Model Require Import Lc Sym Gadgets Api.
Import ListNotations.
Open Scope Z_scope.

Inductive inkind := IPriv | IPub | IPrivBool | IPubBool | IPrivFxp | IPubFxp.
Inductive meth :=
| MToBits (k : option nat) | MFromBits
| MCheckPositive (k : option nat) | MAssertPositive (k : option nat)
| MCheckZero | MCheckNonzero | MAssertZero | MAssertNonzero
| MAssertRange | MAssertLt | MAssertLe | MAssertEq | MAssertNe | MAssertGt | MAssertGe
| MVal.

Inductive lit := LInt (z : Z) | LFloat (m e : Z).
(* pysnark.pack schemas *)
Inductive pschema := KBool | KIntMod (m : Z) | KList (l : list pschema) | KRepeat (s : pschema) (k : nat).
(* argument / result structures of @snark functions: registers at the leaves *)
Inductive rtree := RLeaf (r : nat) | RList (l : list rtree) | RTuple (l : list rtree).
Inductive stmt :=
| SInput (d : nat) (k : inkind) (i : nat)
| SConst (d : nat) (v : lit)
| SConstVal (d : nat) (k : Z)
| SUn (d : nat) (op : uop) (a : nat)
| SBin (d : nat) (op : bop) (a b : nat)
| SMeth (d : nat) (m : meth) (recv : nat) (args : list nat)
| SIte (d : nat) (cnd t f : nat)
| SList (d : nat) (l : list nat)
| SIndex (d : nat) (l : nat) (i : nat)                (* plain list indexing with a public index *)
| SGuarded (cnd : nat) (body : list stmt)            (* runtime.guarded(cond)(lambda: body)() *)
| SIgnore (b : bool)                                 (* runtime.ignore_errors(b) *)
| SIteLazy (d cnd : nat) (tb : list stmt) (tr : nat) (fb : list stmt) (fr : nat)
                                                     (* if_then_else(cond, lambda: tb; regs[tr], lambda: fb; regs[fr]) *)
| SProbe                                             (* harness probe: (guard is None, guard.value, _ignore_errors) *)
(* ---- pysnark.branching block API on a BranchingValues object `_` (variables are named by numbers) ---- *)
| SBSet (nm : nat) (src : nat)                       (* _.nm = regs[src] *)
| SBGet (d : nat) (nm : nat)                         (* regs[d] = _.nm *)
| SBSetIdx (nm : nat) (path : list nat) (src : nat)  (* _.nm[i][j]... = regs[src]   (in-place write into a (nested) list variable) *)
| SBGetIdx (d : nat) (nm : nat) (path : list nat)    (* regs[d] = _.nm[i][j]... *)
| SBArrSet (nm : nat) (idx : list nat) (src : nat)   (* _.nm[i] = regs[src] / _.nm[i, j] = regs[src] on an Array-valued variable (in place) *)
| SRaise (e : exn)                                   (* raise e() -- an exception raised by the program itself *)
| SOIf (cnd : nat) (thenb : list stmt) (elifs : list (list stmt * nat * list stmt)) (elseb : option (list stmt))
      (* if _if(c): thenb;  if _elif(lambda: <condb>; regs[cr]): body ...;  if _else(): elseb;  _endif() *)
| SOWhile (condb : list stmt) (cr : nat) (iters : nat) (body : list stmt)
      (* k = 0;  while _while(<condb>; regs[cr]) and k < iters: body; k += 1;   _endwhile() *)
| SBreakIf (cnd : nat)                               (* _breakif(c) *)
| SOFor (ix : nat) (start : Z) (stop : nat) (maxv : Z) (check : bool) (body : list stmt)
(* ---- pysnark.array.Array ---- *)
| SArrNew (d : nat) (elems : list nat)               (* Array([regs...]) ; rows of a 2-D array are Arrays themselves *)
| SArrGet (d : nat) (a : nat) (idx : list nat)       (* regs[d] = regs[a][i] or regs[a][i, j] *)
| SArrSet (a : nat) (idx : list nat) (v : nat)       (* regs[a][i] = regs[v]  /  regs[a][i, j] = regs[v] *)
| SArrCopy (d : nat) (a : nat)                       (* regs[d] = Array(regs[a]) : a new Array over a copy of the row / array / list *)
(* ---- pysnark.pack ---- *)
| SPack (d : nat) (k : pschema) (src : nat)          (* regs[d] = schema.pack(regs[src]) *)
| SUnpack (d : nat) (k : pschema) (src : nat)        (* regs[d] = schema.unpack(regs[src], 0) *)
(* ---- runtime.snark ---- *)
| SSnark (d : nat) (args : list rtree) (body : list stmt) (res : rtree)
(* ---- pysnark.poseidon_hash / ggh_hash (parameter set / coefficient list chosen by the caller of the model) ---- *)
| SPermute (d : nat) (ps : poseidon_params) (src : nat)        (* regs[d] = permute(regs[src]) *)
| SPoseidon (d : nat) (ps : poseidon_params) (src : nat)       (* regs[d] = poseidon_hash(regs[src]) *)
| SGgh (d : nat) (coeffs : list Z) (src : nat).                 (* regs[d] = ggh_hash(regs[src]); coeffs = SHA512_prng(0..) *)
      (* regs[d] = snark(fn)(args...) where fn binds its converted arguments to the argument registers, runs body, returns res *)
      (* for i in _range(start, regs[stop], max=maxv, checkstopmax=check): regs[ix] = i; body;   _endfor() *)

Section WithP.
Context {p : Z}.
Local Notation slc := (Sym.slc p).
Local Notation G := (@Gadgets.G p).
Local Notation G1 := (@Gadgets.M p true).      (* statements: may use the block API / ignore_errors *)
Local Notation gst := (@Gadgets.gst p).
Local Notation pyval := (Api.pyval p).
Local Notation cmd := (Sym.cmd p).

Definition regs := list (nat * pyval).
Fixpoint rget (r : regs) (i : nat) : pyval :=
  match r with [] => PNone | (j, v) :: r' => if Nat.eqb i j then v else rget r' i end.
Definition rset (r : regs) (i : nat) (v : pyval) : regs := (i, v) :: r.

Definition name_lc (x : slc) : G slc := if oid x =? 0 then o <- fresh_oid ;; ret (with_oid x o) else ret x.
(* objects get an identity when they are first stored in a register *)
Fixpoint name_val (v : pyval) : G pyval :=
  match v with
  | PLC x => x' <- name_lc x ;; ret (PLC x')
  | PBool o x => o' <- (if o =? 0 then fresh_oid else ret o) ;; x' <- name_lc x ;; ret (PBool o' x')
  | PFxp o x => o' <- (if o =? 0 then fresh_oid else ret o) ;; x' <- name_lc x ;; ret (PFxp o' x')
  | PList l => l' <- (fix go (l : list pyval) : G (list pyval) :=
                        match l with [] => ret [] | a :: l0 => b <- name_val a ;; r <- go l0 ;; ret (b :: r) end) l ;; ret (PList l')
  | PTuple l => l' <- (fix go (l : list pyval) : G (list pyval) :=
                        match l with [] => ret [] | a :: l0 => b <- name_val a ;; r <- go l0 ;; ret (b :: r) end) l ;; ret (PTuple l')
  | PArr rw l => l' <- (fix go (l : list pyval) : G (list pyval) :=
                        match l with [] => ret [] | a :: l0 => b <- name_val a ;; r <- go l0 ;; ret (b :: r) end) l ;; ret (PArr rw l')
  | _ => ret v
  end.

(* what the harness observes of a value *)
Fixpoint norm_float (fuel : nat) (m e : Z) : Z * Z :=
  match fuel with O => (m, e) | S f => if (e <=? 0) || Z.odd m then (m, e) else norm_float f (m / 2) (e - 1) end.
Fixpoint out_val (v : pyval) : list cmd :=
  match v with
  | PInt k => [COut 0 (VConst k) []]
  | PLC x => [COutLC 1 x]
  | PBool _ x => [COutLC 2 x]
  | PFxp _ x => [COutLC 3 x]
  | PFloat m e => let '(m', e') := if m =? 0 then (0, 0) else norm_float 2000 m e in [COut 4 (VConst m') [(0, e')]]
  | PList l => COut 5 (VConst (Z.of_nat (length l))) [] :: flat_map out_val l
  | PTuple l => COut 6 (VConst (Z.of_nat (length l))) [] :: flat_map out_val l
  | PArr _ l => COut 12 (VConst (Z.of_nat (length l))) [] :: flat_map out_val l
  | PNone => [COut 7 (VConst 0) []]
  | PNotImpl => [COut 8 (VConst 0) []]
  end.
Definition emit_out (v : pyval) : G unit := fold_right (fun (c : cmd) (k : G unit) => Emit c k) (Ret tt) (out_val v).
Definition out_globals (s : gst) : list cmd :=
  [COut (-1) (VB2Z (ignore s)) (match guard s with Some g => wire g | None => [] end);
   COut (-2) (VConst (match guard s with Some _ => 1 | None => 0 end)) (wire (one s))].

Section Gen.
Variable c : cfg.
Let n := nbits c.
Let Rz : Z := R c.
Definition op2 := pyop (p:=p) c.

Definition gen_input (k : inkind) (i : nat) : G pyval :=
  match k with
  | IPriv => lcr (privval (VIn i))
  | IPub => lcr (pubval (VIn i))
  | IPrivBool => boolr (privbool (VIn i))
  | IPubBool => boolr (pubbool (VIn i))
  | IPrivFxp => fxpr (privval (VMul (VIn i) (VConst Rz)))     (* PrivValFxp(int): add_scaling then PrivVal *)
  | IPubFxp => fxpr (pubval (VMul (VIn i) (VConst Rz)))
  end.

(* LinComb._ensurelc *)
Definition ensurelc (v : pyval) : G slc :=
  match v with PLC x => ret x | PInt k => ensurelc_int k | _ => static_raise RuntimeError end.
Definition optk (k : option nat) : nat := match k with Some k' => k' | None => n end.
Definition unit_none (m : G unit) : G pyval := m ;;; ret PNone.

Definition assert_by (m : meth) (x y : slc) : G unit :=
  match m with
  | MAssertLt => assert_lt c x y | MAssertLe => assert_le c x y
  | MAssertEq => assert_eq x y | MAssertNe => assert_ne x y
  | MAssertGt => assert_gt c x y | MAssertGe => assert_ge c x y
  | _ => ret tt
  end.

Definition gen_meth (m : meth) (recv : pyval) (args : list pyval) : G pyval :=
  match m, recv, args with
  (* classmethod LinComb.from_bits(list) : receiver is the list *)
  | MFromBits, PList l, [] =>
      match l with
      | [] => ret (PInt 0)
      | b0 :: l' =>
          t0 <- op2 OMul b0 (PInt 1) ;; acc0 <- op2 OAdd (PInt 0) t0 ;;
          (fix go (acc : pyval) (bs : list pyval) (i : Z) : G pyval :=
             match bs with [] => ret acc | b :: bs' => t <- op2 OMul b (PInt (2 ^ i)) ;; a <- op2 OAdd acc t ;; go a bs' (i + 1) end) acc0 l' 1
      end
  (* LinComb *)
  | MToBits k, PLC x, [] => bs <- to_bits x (optk k) ;; ret (PList (map (PBool 0) bs))
  | MCheckPositive k, PLC x, [] => boolr (check_positive x (optk k))
  | MAssertPositive k, PLC x, [] => unit_none (assert_positive x (optk k))
  | MCheckZero, PLC x, [] => boolr (check_zero x)
  | MCheckNonzero, PLC x, [] => r <- check_zero x ;; ret (PBool 0 (bnot r))
  | MAssertZero, PLC x, [] => unit_none (assert_zero x)
  | MAssertNonzero, PLC x, [] => unit_none (assert_nonzero x)
  | MAssertRange, PLC x, [lo; hi] => l <- ensurelc lo ;; h <- ensurelc hi ;; unit_none (assert_range c x l h)
  | (MAssertLt | MAssertLe | MAssertEq | MAssertNe | MAssertGt | MAssertGe), PLC x, [o] =>
      y <- ensurelc o ;; unit_none (assert_by m x y)
  | MVal, PLC x, [] => lcval x ;;; emitc (COut 0 (sval x) []) ;;; ret PNone
  (* LinCombBool *)
  | MCheckPositive None, PBool _ b, [] => boolr (check_positive b n)
  | MAssertPositive None, PBool _ b, [] => unit_none (assert_positive b n)
  | MCheckZero, PBool _ b, [] => boolr (check_zero b)
  | MAssertZero, PBool _ b, [] => unit_none (assert_zero b)
  | MAssertNonzero, PBool _ b, [] => unit_none (assert_nonzero b)
  | (MAssertLt | MAssertLe | MAssertEq | MAssertNe | MAssertGt | MAssertGe), PBool _ b, [o] =>
      y <- ensurebool o ;; unit_none (assert_by m b y)
  | MVal, PBool _ b, [] => lcval b ;;; emitc (COut 0 (sval b) []) ;;; ret PNone
  (* LinCombFxp *)
  | MCheckPositive None, PFxp _ f, [] => boolr (check_positive f n)
  | MAssertPositive None, PFxp _ f, [] => unit_none (assert_positive f n)
  | MCheckZero, PFxp _ f, [] => boolr (check_zero f)
  | MCheckNonzero, PFxp _ f, [] => r <- check_zero f ;; ret (PBool 0 (bnot r))
  | MAssertZero, PFxp _ f, [] => unit_none (assert_zero f)
  | MAssertNonzero, PFxp _ f, [] => unit_none (assert_nonzero f)
  | MAssertRange, PFxp _ f, [lo; hi] => l <- ensurefxp c lo ;; h <- ensurefxp c hi ;; unit_none (assert_range c f l h)
  | (MAssertLt | MAssertLe | MAssertEq | MAssertNe | MAssertGt | MAssertGe), PFxp _ f, [o] =>
      y <- ensurefxp c o ;; unit_none (assert_by m f y)
  | MVal, PFxp _ f, [] => lcval f ;;; emitc (COut 9 (sval f) []) ;;; ret PNone
  | _, _, _ => static_raise AttributeError
  end.

(* Python sum(l): starts from the int 0 *)
Definition py_sum (l : list pyval) : G pyval :=
  fold_left (fun (acc : G pyval) (y : pyval) => a <- acc ;; op2 OAdd a y) l (ret (PInt 0)).
Fixpoint upd_nth {A} (l : list A) (i : nat) (v : A) : list A :=
  match l, i with [], _ => [] | _ :: l', O => v :: l' | x :: l', S i' => x :: upd_nth l' i' v end.
(* Python list index with a public int (negative indexes count from the end) *)
Definition py_index (len k : Z) : option nat := if (- len <=? k) && (k <? len) then Some (Z.to_nat (k mod len)) else None.
(* the one-hot selector of Array.__getitem__/__setitem__ with a secret index: bounds check, [item == ix ...], sum(ixs).assert_eq(1) *)
Definition arr_selector (l : list pyval) (x : slc) : G (list pyval) :=
  s <- get ;;
  let len := Z.of_nat (length l) in
  raise_if (BAnd (BNot (ignore s)) (BOr (BLt (sval x) (VConst 0)) (BLe (VConst len) (sval x)))) IndexError ;;;
  ixs <- mapM_range (fun j => op2 OEq (PLC x) (PInt (Z.of_nat j))) 0 (length l) ;;
  sm <- py_sum ixs ;;
  match sm with
  | PLC t => one1 <- ensurelc (PInt 1) ;; assert_eq t one1 ;;; ret ixs
  | _ => static_raise AttributeError                       (* empty array: (0).assert_eq *)
  end.
Definition arr_get1 (l : list pyval) (i : pyval) : G pyval :=
  match i with
  | PInt k => match py_index (Z.of_nat (length l)) k with Some j => ret (nth j l PNone) | None => static_raise IndexError end
  | PLC x =>
      ixs <- arr_selector l x ;;
      ts <- zipM (fun cf v => op2 OMul cf v) ixs l ;;              (* lin_comb(ixs, self.arr) = sum([c*v ...]) *)
      r <- py_sum ts ;;
      ret (match r with PArr _ m => PArr true m | _ => r end)       (* an Array result is wrapped as ArrayRow *)
  | _ => static_raise TypeError
  end.
Fixpoint arr_get (l : list pyval) (idx : list pyval) : G pyval :=
  match idx with
  | [] => static_raise IndexError
  | [i] => arr_get1 l i
  | i :: rest => v <- arr_get1 l i ;; match v with PArr _ m => arr_get m rest | _ => static_raise TypeError end
  end.
Definition arr_set1 (l : list pyval) (i : pyval) (v : pyval) : G (list pyval) :=
  match i with
  | PInt k => match py_index (Z.of_nat (length l)) k with Some j => ret (upd_nth l j v) | None => static_raise IndexError end
  | PLC x =>
      ixs <- arr_selector l x ;;
      zipM (fun cf old => if_then_else c op2 cf v old) ixs l
  | _ => static_raise TypeError
  end.
Fixpoint arr_set (l : list pyval) (idx : list pyval) (v : pyval) : G (list pyval) :=
  match idx with
  | [] => static_raise IndexError
  | [i] => arr_set1 l i v
  | i :: rest =>
      it <- arr_get1 l i ;;                                          (* it = self[item[0]]; ArrayRow -> Array(it) *)
      match it with
      | PArr _ m => m' <- arr_set m rest v ;; arr_set1 l i (PArr false m')      (* it[item[1:]] = value; self[item[0]] = it *)
      | _ => static_raise TypeError
      end
  end.

(* ---------------- pysnark.pack ---------------- *)
Definition bitlen_of (m : Z) : nat := Z.to_nat (bit_length (m - 1)).          (* (self.mod-1).bit_length() *)
Fixpoint sch_bitlen (k : pschema) : nat :=
  match k with
  | KBool => 1 | KIntMod m => bitlen_of m
  | KList l => fold_right (fun x acc => sch_bitlen x + acc)%nat 0%nat l
  | KRepeat s t => (sch_bitlen s * t)%nat
  end.
Definition py_bits (v : Z) (n : nat) : list pyval := map (fun i => PInt (Z.shiftr (Z.land v (Z.shiftl 1 (Z.of_nat i))) (Z.of_nat i))) (seq 0 n).
Definition concat_lists (ls : list pyval) : G pyval :=       (* functools.reduce(lambda x, y: x + y, ls) *)
  match ls with
  | [] => static_raise TypeError
  | x :: rest => fold_left (fun (acc : G pyval) y => a <- acc ;; match a, y with PList p1, PList p2 => ret (PList (p1 ++ p2)) | _, _ => static_raise TypeError end) rest (ret x)
  end.
Fixpoint pack_v (k : pschema) (v : pyval) {struct k} : G pyval :=
  match k with
  | KBool => match v with
             | PLC _ => ret (PList [v])                                   (* a LinComb is passed through unchecked *)
             | PInt z => ret (PList [PInt (if z =? 0 then 0 else 1)])
             | PBool _ _ | PFxp _ _ => static_raise NotImplementedError   (* bool(val) *)
             | PList l | PTuple l => ret (PList [PInt (match l with [] => 0 | _ => 1 end)])
             | _ => ret (PList [PInt 0]) end
  | KIntMod m => match v with
                 | PLC x => bs <- to_bits x (bitlen_of m) ;; ret (PList (map (PBool 0) bs))
                 | PInt z => if (z <? 0) || (m <=? z) then static_raise ValueError else ret (PList (py_bits z (bitlen_of m)))
                 | _ => static_raise TypeError end
  | KList l => match v with
               | PList vs | PTuple vs =>
                   parts <- (fix go (ks : list pschema) (vs : list pyval) : G (list pyval) :=
                               match ks, vs with k1 :: ks', v1 :: vs' => a <- pack_v k1 v1 ;; r <- go ks' vs' ;; ret (a :: r) | _, _ => ret [] end) l vs ;;
                   concat_lists parts
               | _ => static_raise TypeError end
  | KRepeat s _ => match v with
                   | PList vs | PTuple vs => parts <- mapM (pack_v s) vs ;; concat_lists parts
                   | _ => static_raise TypeError end
  end.
Definition nth_bits (bits : list pyval) (pos : nat) : G pyval :=
  if Nat.ltb pos (length bits) then ret (nth pos bits PNone) else static_raise IndexError.
Fixpoint unpack_v (k : pschema) (bits : list pyval) (pos : nat) {struct k} : G pyval :=
  match k with
  | KBool => nth_bits bits pos
  | KIntMod m =>
      if Nat.eqb (bitlen_of m) 0 then ret (PInt 0) else       (* modulus 1: a zero-width field *)
      b0 <- nth_bits bits pos ;;
      let sl := firstn (bitlen_of m) (skipn pos bits) in
      match b0 with
      | PLC _ | PBool _ _ =>
          (* ret = LinComb.from_bits(bits[pos:pos+bitlen]); (self.mod - 1 - ret).assert_positive(self.bitlen()) *)
          match sl with
          | [] => static_raise AttributeError
          | x0 :: rest =>
              t0 <- op2 OMul x0 (PInt 1) ;; a0 <- op2 OAdd (PInt 0) t0 ;;
              r <- (fix go (acc : pyval) (bs : list pyval) (i : Z) : G pyval :=
                      match bs with [] => ret acc | b :: bs' => t <- op2 OMul b (PInt (2 ^ i)) ;; a <- op2 OAdd acc t ;; go a bs' (i + 1) end) a0 rest 1 ;;
              match r with
              | PLC x => assert_positive (rsubc (m - 1) x) (bitlen_of m) ;;; ret r
              | _ => static_raise AttributeError end
          end
      | _ => (* sum([(1<<ix)*v ...]) on plain ints *)
          ts <- (fix go (bs : list pyval) (i : Z) : G (list pyval) :=
                   match bs with [] => ret [] | b :: bs' => t <- op2 OMul (PInt (2 ^ i)) b ;; r <- go bs' (i + 1) ;; ret (t :: r) end) sl 0 ;;
          py_sum ts
      end
  | KList l =>
      rs <- (fix go (ks : list pschema) (pos : nat) : G (list pyval) :=
               match ks with [] => ret [] | k1 :: ks' => a <- unpack_v k1 bits pos ;; r <- go ks' (pos + sch_bitlen k1)%nat ;; ret (a :: r) end) l pos ;;
      ret (PList rs)
  | KRepeat s t =>
      rs <- mapM (fun i => unpack_v s bits (pos + i * sch_bitlen s)%nat) (seq 0 t) ;; ret (PList rs)
  end.

(* ---------------- runtime.snark ---------------- *)
Fixpoint leaves (t : rtree) : list nat :=
  match t with RLeaf r => [r] | RList l | RTuple l => flat_map leaves l end.
(* for_each_in(converter, struct) over the leaves, in order; three type-wise passes as in snark__ *)
Fixpoint conv_pass (f : pyval -> G (option pyval)) (ls : list nat) (r : regs) : G regs :=
  match ls with
  | [] => ret r
  | l :: ls' => o <- f (rget r l) ;; conv_pass f ls' (match o with Some v => rset r l v | None => r end)
  end.
Definition arg_int (v : pyval) : G (option pyval) :=
  match v with PInt k => x <- pubval (VConst k) ;; ret (Some (PLC x)) | _ => ret None end.
Definition arg_float (v : pyval) : G (option pyval) :=
  match v with PFloat m e => x <- pubval (VConst (scale_float c m e)) ;; ret (Some (PFxp 0 x)) | _ => ret None end.
(* result passes: x.val() for LinComb, then LinCombFxp, then LinCombBool; the register then holds a marker of the plain value *)
Definition res_lc (v : pyval) : G (option pyval) :=
  match v with PLC x => lcval x ;;; ret (Some (PTuple [PInt 0; PLC x])) | _ => ret None end.
Definition res_fxp (v : pyval) : G (option pyval) :=
  match v with PFxp _ x => lcval x ;;; ret (Some (PTuple [PInt 9; PLC x])) | _ => ret None end.
Definition res_bool (v : pyval) : G (option pyval) :=
  match v with PBool _ x => lcval x ;;; ret (Some (PTuple [PInt 0; PLC x])) | _ => ret None end.
Definition out_plain (v : pyval) : G unit :=
  match v with
  | PTuple [PInt tag; PLC x] => emitc (COut tag (sval x) [])       (* the plain value returned by val() *)
  | _ => emit_out v
  end.

(* ---------------- pysnark.poseidon_hash ---------------- *)
(* one element of matmul(matrix, transpose([sponge])): result = LinComb.ZERO; result += m[k] * y[k] ... *)
Definition mix_row (row : list Z) (st : list slc) : slc :=
  fold_left (fun acc my => add acc (scale (snd my) (fst my))) (combine row st) ZERO.
Definition mix (ps : poseidon_params) (st : list slc) : list slc := map (fun row => relin_modp (mix_row row st)) (matrix ps).
Definition add_rc (rc : list Z) (st : list slc) : list slc := map (fun xy => addc (fst xy) (snd xy)) (combine st rc).
Definition sbox (ps : poseidon_params) (x : slc) : G slc :=
  if pa ps <? 0 then static_raise ValueError else pow_nat x (Z.to_nat (pa ps)).
Definition full_round (ps : poseidon_params) (rc : list Z) (st : list slc) : G (list slc) :=
  s1 <- mapM (sbox ps) (add_rc rc st) ;; ret (mix ps s1).
Definition partial_round (ps : poseidon_params) (rc : list Z) (st : list slc) : G (list slc) :=
  match add_rc rc st with
  | [] => static_raise IndexError
  | x0 :: rest => y0 <- sbox ps x0 ;; ret (mix ps (y0 :: rest))
  end.
Fixpoint rounds (f : list Z -> list slc -> G (list slc)) (rcs : list (list Z)) (st : list slc) : G (list slc) :=
  match rcs with [] => ret st | rc :: rcs' => st' <- f rc st ;; rounds f rcs' st' end.
Definition permute_m (ps : poseidon_params) (st : list slc) : G (list slc) :=
  let half := Z.to_nat (R_F ps / 2) in
  let rp := Z.to_nat (R_P ps) in
  let rcs := round_constants ps in
  s1 <- rounds (full_round ps) (firstn half rcs) st ;;
  s2 <- rounds (partial_round ps) (firstn rp (skipn half rcs)) s1 ;;
  rounds (full_round ps) (firstn half (skipn (half + rp) rcs)) s2.
Definition as_lcs (l : list pyval) : option (list slc) :=
  fold_right (fun v acc => match v, acc with
                           | (PLC x | PBool _ x | PFxp _ x), Some r => Some (x :: r)
                           | _, _ => None end) (Some []) l.
Fixpoint chunks (fuel n : nat) (l : list slc) : list (list slc) :=
  match fuel with O => [] | S f => match l with [] => [] | _ => firstn n l :: chunks f n (skipn n l) end end.
Definition poseidon_hash_m (ps : poseidon_params) (ins : list slc) : G (list slc) :=
  s <- get ;;
  let r := Z.to_nat (pt ps - 1) in
  let npad := (r - (length ins) mod r)%nat in
  let padded := ins ++ [one s] ++ repeat ZERO (npad - 1) in
  let blocks := chunks (length padded) r padded in
  st <- fold_left (fun (acc : G (list slc)) blk =>
                     sp <- acc ;;
                     match sp with
                     | [] => static_raise IndexError
                     | c0 :: rate => permute_m ps (c0 :: map (fun ab => add (fst ab) (snd ab)) (combine rate blk))
                     end) blocks (ret (repeat ZERO (Z.to_nat (pt ps)))) ;;
  ret (tl st).
(* ggh_hash_nonplain: total = 0; total = total + b * SHA512_prng(i); total.value %= PRIME *)
Definition ggh_m (coeffs : list Z) (bits : list pyval) : G pyval :=
  fold_left (fun (acc : G pyval) bc =>
               t <- acc ;; m <- op2 OMul (fst bc) (PInt (snd bc)) ;; s <- op2 OAdd t m ;;
               match s with
               | PLC x => ret (PLC (recast_modp x))
               | _ => static_raise AttributeError          (* 'int' object has no attribute 'value' *)
               end) (combine bits coeffs) (ret (PInt 0)).

Fixpoint gen_stmt (st : stmt) (r : regs) {struct st} : G regs :=
  let store d v := (v' <- name_val v ;; emit_out v' ;;; ret (rset r d v')) in
  match st with
  | SInput d k i => v <- gen_input k i ;; store d v
  | SConst d v => store d (match v with LInt z => PInt z | LFloat m e => PFloat m e end)
  | SConstVal d k => store d (PLC (constv k))
  | SUn d op a => v <- unop c op2 op (rget r a) ;; store d v
  | SBin d op a b => v <- op2 op (rget r a) (rget r b) ;; store d v
  | SMeth d m recv args => v <- gen_meth m (rget r recv) (map (rget r) args) ;; store d v
  | SIte d cn t f => v <- (if Nat.eqb t f then ret (rget r t)      (* same register: `truev is falsev` *)
                           else if_then_else c op2 (rget r cn) (rget r t) (rget r f)) ;; store d v
  | SList d l => store d (PList (map (rget r) l))
  | SIndex d l i => match rget r l with
                    | PList vs | PTuple vs => if Nat.ltb i (length vs) then store d (nth i vs PNone) else static_raise IndexError
                    | _ => static_raise TypeError end
  | SGuarded cn body =>
      match rget r cn with
      | PLC g | PBool _ g =>          (* add_guard unwraps a LinCombBool *)
          guarded c g ((fix go (b : list stmt) (r0 : regs) : G regs :=
                          match b with [] => ret r0 | s1 :: b' => r1 <- gen_stmt s1 r0 ;; go b' r1 end) body r)
      | PInt k => if k =? 0 then static_raise RuntimeError else if k =? 1 then
                    (fix go (b : list stmt) (r0 : regs) : G regs :=
                          match b with [] => ret r0 | s1 :: b' => r1 <- gen_stmt s1 r0 ;; go b' r1 end) body r
                  else static_raise RuntimeError
      | _ => static_raise TypeError
      end
  | SIgnore b => static_raise RuntimeError      (* a top-level statement (gen_top); not modelled inside a guarded body *)
  | SIteLazy d cn tb tr fb fr =>
      (* truev and falsev are two distinct callables; an int condition would return the callable itself (not modelled) *)
      match rget r cn with
      | PBool _ cb =>
          let body b r0 := (fix go (b : list stmt) (r0 : regs) : G regs :=
                              match b with [] => ret r0 | s1 :: b' => r1 <- gen_stmt s1 r0 ;; go b' r1 end) b r0 in
          r1 <- guarded c cb (body tb r) ;;
          let tv := rget r1 tr in
          nc <- mkbool (bnot cb) ;;                                     (* ~cond *)
          r2 <- guarded c (match nc with PBool _ x => x | _ => cb end) (body fb r1) ;;
          let fv := rget r2 fr in
          v <- if_then_else_evaluated c op2 (rget r cn) tv fv ;;
          v' <- name_val v ;; emit_out v' ;;; ret (rset r2 d v')
      | PInt _ => static_raise NotImplementedError
      | _ => static_raise RuntimeError
      end
  | SRaise e => static_raise e
  | SBSet _ _ | SBGet _ _ | SBSetIdx _ _ _ | SBGetIdx _ _ _ | SBArrSet _ _ _ | SOIf _ _ _ _ | SOWhile _ _ _ _ | SBreakIf _ | SOFor _ _ _ _ _ _ => static_raise ModelError   (* block API only at statement level *)
  | SPermute d ps src =>
      match rget r src with
      | PList l => match as_lcs l with
                   | Some xs => ys <- permute_m ps xs ;; store d (PList (map PLC ys))
                   | None => static_raise TypeError end
      | _ => static_raise TypeError end
  | SPoseidon d ps src =>
      match rget r src with
      | PList l => match as_lcs l with
                   | Some xs => ys <- poseidon_hash_m ps xs ;; store d (PList (map PLC ys))
                   | None => static_raise RuntimeError end          (* Can only hash lists of LinCombs *)
      | _ => static_raise RuntimeError end
  | SGgh d coeffs src =>
      match rget r src with
      | PList l => v <- ggh_m coeffs l ;; store d v
      | _ => static_raise TypeError end
  | SPack d k src => v <- pack_v k (rget r src) ;; store d v
  | SUnpack d k src => match rget r src with PList bits => v <- unpack_v k bits 0 ;; store d v | _ => static_raise TypeError end
  | SSnark d args body res =>
      let als := flat_map leaves args in
      r1 <- conv_pass arg_int als r ;;
      r2 <- conv_pass arg_float als r1 ;;
      r3 <- (fix go (b : list stmt) (r0 : regs) : G regs :=
               match b with [] => ret r0 | s1 :: b' => r' <- gen_stmt s1 r0 ;; go b' r' end) body r2 ;;
      let rls := leaves res in
      r4 <- conv_pass res_lc rls r3 ;;
      r5 <- conv_pass res_fxp rls r4 ;;
      r6 <- conv_pass res_bool rls r5 ;;
      mapM (fun l => out_plain (rget r6 l)) rls ;;;
      emit_out PNone ;;; ret (rset r6 d PNone)
  | SArrNew d elems => store d (PArr false (map (rget r) elems))
  | SArrCopy d a => match rget r a with
                    | PArr _ l | PList l => store d (PArr false l)
                    | _ => static_raise TypeError end
  | SArrGet d a idx => match rget r a with
                       | PArr _ l => v <- arr_get l (map (rget r) idx) ;; store d v
                       | _ => static_raise TypeError end
  | SArrSet a idx v => match rget r a with
                       | PArr true _ => static_raise TypeError          (* ArrayRow.__setitem__ *)
                       | PArr false l => l' <- arr_set l (map (rget r) idx) (rget r v) ;; v' <- name_val (PArr false l') ;; ret (rset r a v')
                       | _ => static_raise TypeError end
  | SProbe => s <- get ;;
      emitc (COut 10 (match guard s with Some g => sval g | None => VConst (-1) end) []) ;;;
      emitc (COut 11 (VB2Z (ignore s)) []) ;;; ret r
  end.
(* ---------------- pysnark.branching: BranchingValues, BranchContext, IfContext, WhileContext, ObliviousIterator ---------------- *)
Definition bdict := list (nat * pyval).          (* a Python dict keyed by variable name, in insertion order *)
Fixpoint dget (d : bdict) (k : nat) : option pyval :=
  match d with [] => None | (j, v) :: d' => if Nat.eqb k j then Some v else dget d' k end.
Fixpoint dset (d : bdict) (k : nat) (v : pyval) : bdict :=      (* assignment keeps the position of an existing key *)
  match d with [] => [(k, v)] | (j, w) :: d' => if Nat.eqb k j then (j, v) :: d' else (j, w) :: dset d' k v end.
Definition ddel (d : bdict) (k : nat) : bdict := filter (fun jv => negb (Nat.eqb k (fst jv))) d.
Definition dmem (d : bdict) (k : nat) : bool := match dget d k with Some _ => true | None => false end.
(* copy.deepcopy: LinComb.__deepcopy__ returns self; wrappers are re-created around the same LinComb *)
Fixpoint deepcopy (v : pyval) : pyval :=
  match v with
  | PBool _ x => PBool 0 x | PFxp _ x => PFxp 0 x
  | PList l => PList (map deepcopy l) | PTuple l => PTuple (map deepcopy l)
  | _ => v
  end.
(* v[i][j]... and v[i][j]... = nv on (nested) plain lists *)
Fixpoint get_path (v : pyval) (path : list nat) : option pyval :=
  match path with
  | [] => Some v
  | i :: rest => match v with PList l => match nth_error l i with Some e => get_path e rest | None => None end | _ => None end
  end.
Fixpoint list_upd {A} (l : list A) (i : nat) (a : A) : list A :=
  match l, i with [], _ => [] | _ :: l', O => a :: l' | x :: l', S i' => x :: list_upd l' i' a end.
Fixpoint upd_path (v : pyval) (path : list nat) (nv : pyval) : option pyval :=
  match path with
  | [] => Some nv
  | i :: rest => match v with
                 | PList l => match nth_error l i with
                              | Some e => match upd_path e rest nv with Some e' => Some (PList (list_upd l i e')) | None => None end
                              | None => None end
                 | _ => None end
  end.
Inductive ctxkind := KIf | KWhile.
Record bctx := { bk : ctxkind; bcond : pyval; bbak : bdict; borig : Sym.gtriple p; bnodef : option bdict; bicond : option pyval }.
Record bst := { bregs : regs; bvals : bdict; bstack : list bctx }.
Definition with_regs (b : bst) (r : regs) : bst := {| bregs := r; bvals := bvals b; bstack := bstack b |}.
Definition with_vals (b : bst) (d : bdict) : bst := {| bregs := bregs b; bvals := d; bstack := bstack b |}.
Definition with_stack (b : bst) (st : list bctx) : bst := {| bregs := bregs b; bvals := bvals b; bstack := st |}.

(* runtime.add_guard as called by the block API (LinCombBool is unwrapped; ints 0/1 are handled statically) *)
Definition add_guard_v (cnd : pyval) : G1 (Sym.gtriple p) :=
  match cnd with
  | PLC g | PBool _ g => add_guard c g
  | PInt k => if k =? 0 then static_raise RuntimeError else if k =? 1 then s <- get ;; ret (cur_triple s) else static_raise RuntimeError
  | _ => static_raise TypeError
  end.
(* branching._not *)
Definition bnot_v (cnd : pyval) : G1 pyval :=
  match cnd with PBool _ b => lift (mkbool (bnot b)) | _ => lift (op2 OSub (PInt 1) cnd) end.
(* the selected object is stored in the variable dict: it has an identity from then on *)
Definition ite1 (cnd t f : pyval) : G1 pyval := v <- lift (if_then_else c op2 cnd t f) ;; lift (name_val v).

(* BranchContext.enter *)
Definition ctx_enter (k : ctxkind) (vals : bdict) (cnd : pyval) (nodef : option bdict) (icond : option pyval) : G1 bctx :=
  let bak := map (fun jv => (fst jv, deepcopy (snd jv))) vals in
  orig <- add_guard_v cnd ;;
  ret {| bk := k; bcond := cnd; bbak := bak; borig := orig; bnodef := nodef; bicond := icond |}.
(* BranchContext.exit (+ the WhileContext check); returns the new variable dict and the new nodefvals *)
Fixpoint merge_nodef (cnd : pyval) (vals : bdict) (nodef : bdict) : G1 bdict :=
  match nodef with
  | [] => ret []
  | (nm, old) :: rest =>
      match dget vals nm with
      | None => static_raise RuntimeError                  (* branch did not set value *)
      | Some cur => v <- ite1 cnd cur old ;; r <- merge_nodef cnd vals rest ;; ret ((nm, v) :: r)
      end
  end.
Fixpoint merge_bak (cnd : pyval) (bak : bdict) (todo : bdict) (acc : bdict) : G1 bdict :=
  match todo with
  | [] => ret acc
  | (nm, cur) :: rest =>
      match dget bak nm with
      | None => static_raise RuntimeError                  (* branch set spurious value *)
      | Some old => v <- ite1 cnd cur old ;; merge_bak cnd bak rest (dset acc nm v)
      end
  end.
Definition ctx_exit (cx : bctx) (vals : bdict) : G1 (bdict * bdict) :=
  restore_guard (borig cx) ;;;
  nodef <- match bnodef cx with
           | None => ret (filter (fun jv => negb (dmem (bbak cx) (fst jv))) vals)
           | Some nd => merge_nodef (bcond cx) vals nd
           end ;;
  let vals1 := fold_left (fun d jv => ddel d (fst jv)) nodef vals in
  vals2 <- merge_bak (bcond cx) (bbak cx) vals1 vals1 ;;
  match bk cx with
  | KWhile => match nodef with [] => ret (vals2, nodef) | _ => static_raise RuntimeError end   (* conditional write to undefined variables *)
  | KIf => ret (vals2, nodef)
  end.
(* WhileContext._while(nwcond) : exit(); enter(self.cond & nwcond) *)
Definition ctx_while (cx : bctx) (vals : bdict) (nwcond : pyval) : G1 (bctx * bdict) :=
  vn <- ctx_exit cx vals ;;
  cc <- lift (op2 OAnd (bcond cx) nwcond) ;;
  cx' <- ctx_enter KWhile (fst vn) cc (Some (snd vn)) None ;;
  ret (cx', fst vn).

Definition name_store (b : bst) (d : nat) (v : pyval) : G1 bst :=
  v' <- lift (name_val v) ;; lift (emit_out v') ;;; ret (with_regs b (rset (bregs b) d v')).

Fixpoint gen_top (st : stmt) (b : bst) {struct st} : G1 bst :=
  let blk := (fix go (l : list stmt) (b0 : bst) : G1 bst :=
                match l with [] => ret b0 | s1 :: l' => b1 <- gen_top s1 b0 ;; go l' b1 end) in
  match st with
  | SIgnore f => s <- get ;; set_globals (guard s) (if f then BTrue else BFalse) (one s) ;;; ret b
  | SBSet nm src => v <- lift (name_val (rget (bregs b) src)) ;; ret (with_vals (with_regs b (rset (bregs b) src v)) (dset (bvals b) nm v))
  | SBGet d nm => match dget (bvals b) nm with Some v => name_store b d v | None => static_raise AttributeError end   (* KeyError *)
  | SBSetIdx nm path src =>
      match dget (bvals b) nm with
      | None => static_raise AttributeError
      | Some cur => v <- lift (name_val (rget (bregs b) src)) ;;
                    match upd_path cur path v with
                    | Some nv => ret (with_vals (with_regs b (rset (bregs b) src v)) (dset (bvals b) nm nv))
                    | None => static_raise IndexError end
      end
  | SBGetIdx d nm path =>
      match dget (bvals b) nm with
      | None => static_raise AttributeError
      | Some cur => match get_path cur path with Some v => name_store b d v | None => static_raise IndexError end
      end
  | SBArrSet nm idx src =>
      match dget (bvals b) nm with
      | Some (PArr false l) =>
          l' <- lift (arr_set l (map (rget (bregs b)) idx) (rget (bregs b) src)) ;;
          v' <- lift (name_val (PArr false l')) ;;
          ret (with_vals b (dset (bvals b) nm v'))
      | Some _ => static_raise TypeError
      | None => static_raise AttributeError
      end
  | SBreakIf cn =>
      match bstack b with
      | cx :: rest => nc <- bnot_v (rget (bregs b) cn) ;; r <- ctx_while cx (bvals b) nc ;;
                      ret (with_stack (with_vals b (snd r)) (fst r :: rest))
      | [] => static_raise IndexError
      end
  | SOIf cn thenb elifs elseb =>
      let cnd := rget (bregs b) cn in
      ic <- bnot_v cnd ;;                                                   (* IfContext.__init__: before enter *)
      cx <- ctx_enter KIf (bvals b) cnd None (Some ic) ;;
      b1 <- blk thenb (with_stack b (cx :: bstack b)) ;;
      (* elif chain *)
      b2 <- (fix chain (es : list (list stmt * nat * list stmt)) (b0 : bst) : G1 bst :=
               match es with
               | [] => ret b0
               | (condb, cr, body) :: es' =>
                   match bstack b0 with
                   | cx0 :: rest =>
                       vn <- ctx_exit cx0 (bvals b0) ;;
                       bc <- blk condb (with_stack (with_vals b0 (fst vn)) rest) ;;       (* nwcond() : evaluated outside the branch guard *)
                       let nw := rget (bregs bc) cr in
                       match bicond cx0 with
                       | Some ic0 =>
                           nn <- bnot_v nw ;; nwic <- lift (op2 OAnd ic0 nn) ;;
                           en <- lift (op2 OAnd ic0 nw) ;;
                           cx1 <- ctx_enter KIf (bvals bc) en (Some (snd vn)) (Some nwic) ;;
                           bb <- blk body (with_stack bc (cx1 :: bstack bc)) ;;
                           chain es' bb
                       | None => static_raise TypeError                          (* None & x *)
                       end
                   | [] => static_raise IndexError
                   end
               end) elifs b1 ;;
      b3 <- match elseb with
            | None => ret b2
            | Some body =>
                match bstack b2 with
                | cx0 :: rest =>
                    vn <- ctx_exit cx0 (bvals b2) ;;
                    match bicond cx0 with
                    | Some ic0 =>
                        cx1 <- ctx_enter KIf (fst vn) ic0 (Some (snd vn)) None ;;
                        blk body (with_stack (with_vals b2 (fst vn)) (cx1 :: rest))
                    | None => static_raise TypeError
                    end
                | [] => static_raise IndexError
                end
            end ;;
      (* _endif: pop().end() *)
      match bstack b3 with
      | cx0 :: rest =>
          vn <- ctx_exit cx0 (bvals b3) ;;
          match snd vn, bicond cx0 with
          | _ :: _, Some _ => static_raise RuntimeError                         (* if branch set values and no else branch *)
          | nd, _ => ret (with_stack (with_vals b3 (fold_left (fun d jv => dset d (fst jv) (snd jv)) nd (fst vn))) rest)
          end
      | [] => static_raise IndexError
      end
  | SOWhile condb cr iters body =>
      (* first evaluation of the condition and first _while call: a new WhileContext *)
      bc <- blk condb b ;;
      cx <- ctx_enter KWhile (bvals bc) (rget (bregs bc) cr) None None ;;
      bl <- (fix loop (k : nat) (b0 : bst) : G1 bst :=
               match k with
               | O => ret b0
               | S k' =>
                   b1 <- blk body b0 ;;
                   b2 <- blk condb b1 ;;                                         (* evaluated while the previous guard is active *)
                   match bstack b2 with
                   | cx0 :: rest => r <- ctx_while cx0 (bvals b2) (rget (bregs b2) cr) ;;
                                    loop k' (with_stack (with_vals b2 (snd r)) (fst r :: rest))
                   | [] => static_raise IndexError
                   end
               end) iters (with_stack bc (cx :: bstack bc)) ;;
      match bstack bl with
      | cx0 :: rest => vn <- ctx_exit cx0 (bvals bl) ;; ret (with_stack (with_vals bl (fst vn)) rest)
      | [] => static_raise IndexError
      end
  | SOFor ix start stop maxv check body =>
      match rget (bregs b) stop with
      | PLC sx =>
          let ne_stop (i : Z) : G1 pyval := lift (op2 ONe (PInt i) (PLC sx)) in      (* self.ix != self.stop *)
          c0 <- ne_stop start ;;
          cx <- ctx_enter KWhile (bvals b) c0 None None ;;
          (* iterations start .. ; the number of further iterations is public: max - start - 1 (at least the first one runs) *)
          bl <- (fix loop (k : nat) (i : Z) (b0 : bst) : G1 bst :=
                   b1 <- name_store b0 ix (PInt i) ;;
                   b2 <- blk body b1 ;;
                   match k with
                   | O => ret b2
                   | S k' =>
                       cj <- ne_stop (i + 1) ;;
                       match bstack b2 with
                       | cx0 :: rest => r <- ctx_while cx0 (bvals b2) cj ;;
                                        loop k' (i + 1) (with_stack (with_vals b2 (snd r)) (fst r :: rest))
                       | [] => static_raise IndexError
                       end
                   end) (Z.to_nat (maxv - start - 1)) start (with_stack b (cx :: bstack b)) ;;
          let last := start + Z.max 1 (maxv - start) in
          (if check then
             match bstack bl with
             | cx0 :: _ => cl <- ne_stop last ;; a <- lift (op2 OAnd (bcond cx0) cl) ;;
                           match a with PBool _ x => lift (assert_zero x) | _ => static_raise AttributeError end
             | [] => static_raise IndexError
             end
           else ret tt) ;;;
          match bstack bl with
          | cx0 :: rest => vn <- ctx_exit cx0 (bvals bl) ;; ret (with_stack (with_vals bl (fst vn)) rest)
          | [] => static_raise IndexError
          end
      | _ => static_raise ModelError           (* public stop: native range semantics, not modelled *)
      end
  | _ => r <- lift (gen_stmt st (bregs b)) ;; ret (with_regs b r)
  end.
Fixpoint gen_stmts (pr : list stmt) (b : bst) : G1 bst :=
  match pr with [] => ret b | s1 :: pr' => b1 <- gen_top s1 b ;; gen_stmts pr' b1 end.
Definition bst0 : bst := {| bregs := []; bvals := []; bstack := [] |}.

Definition init_gst : gst :=
  {| npub := 0; npriv := 0; noid := 10; guard := None; ignore := BIgn0;
     one := ONE_SAFE; unw := None |}.
Definition gen_prog (pr : list stmt) : list cmd :=
  match run (gen_stmts pr bst0) init_gst with
  | (inl _, s, cs) => cs ++ out_globals s
  | (inr _, _, cs) => cs
  end.
Definition model_run (pr : list stmt) (ins : list Z) (ign0 : bool) : trace := interp p ins ign0 (gen_prog pr).
Definition digests (pr : list stmt) (ins : list Z) (ign0 : bool) : list Z :=
  let t := model_run pr ins ign0 in
  [digest_vars p t; digest_cons p t; digest_outs p t; digest_exn p t].
End Gen.
End WithP.
