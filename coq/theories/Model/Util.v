(* helpers for the in-Coq correspondence files (cases.v) *)
From Coq Require Import ZArith List Bool.
Import ListNotations.
Open Scope Z_scope.

Fixpoint list_eqb {A} (eqb : A -> A -> bool) (l1 l2 : list A) : bool :=
  match l1, l2 with
  | [], [] => true
  | x :: l1', y :: l2' => eqb x y && list_eqb eqb l1' l2'
  | _, _ => false
  end.
Definition zz_eqb (a b : Z * Z) : bool := (fst a =? fst b) && (snd a =? snd b).
Definition zzl_eqb := list_eqb zz_eqb.
Definition optz_eqb (a b : option Z) : bool :=
  match a, b with Some x, Some y => x =? y | None, None => true | _, _ => false end.

(* indexes (from 0) of the cases on which [ok] is false *)
Fixpoint bad_idx_aux {A} (ok : A -> bool) (l : list A) (i : Z) : list Z :=
  match l with [] => [] | x :: l' => (if ok x then [] else [i]) ++ bad_idx_aux ok l' (i + 1) end.
Definition bad_idx {A} (ok : A -> bool) (l : list A) : list Z := bad_idx_aux ok l 0.
