(* C12 model: the part of pysnark.qaptools that is pure logic -- qapsplit's regrouping of the equation file.
   An equation-file line is (call context, content); qapsplit strips the context from every variable
   ("contextualize"), collects the lines of each call, sorts them, and writes one file per FUNCTION from the
   first call of that function, after checking that every other call of it gives the same sorted list
   (compared through a digest).  The linear-combination class (Sig) is in Model/Lc.v. *)
From Coq Require Import ZArith List Bool.
Import ListNotations.
Open Scope Z_scope.

Section Split.
Variable line : Type.                      (* a contextualised line (context prefix already stripped) *)
Variable line_eqb : line -> line -> bool.
Variable sortl : list line -> list line.   (* Python's sorted() on the strings *)
Variable digest : list line -> Z.          (* md5 of the concatenated sorted lines, first 10 hex digits *)

Definition eqfile := list (nat * line).    (* (call id, line) in emission order *)
Definition lines_of (f : eqfile) (call : nat) : list line := map snd (filter (fun e => Nat.eqb (fst e) call) f).
Definition qap_of (f : eqfile) (call : nat) : list line := sortl (lines_of f call).

(* calls: (call id, function id) in order of the [function] lines *)
Fixpoint split (f : eqfile) (calls : list (nat * nat)) (seen : list (nat * Z)) : option (list (nat * list line)) :=
  match calls with
  | [] => Some []
  | (call, fn) :: rest =>
      let q := qap_of f call in
      match find (fun s => Nat.eqb (fst s) fn) seen with
      | Some (_, h) => if h =? digest q then split f rest seen else None          (* "Inconsistent functions" *)
      | None => match split f rest ((fn, digest q) :: seen) with
                | Some out => Some ((fn, q) :: out)
                | None => None end
      end
  end.
End Split.
