(* Coherence lemmas behind the smart constructors of symbolic LinCombs (Model/Gadgets.v).
   Every way the generator can build a LinComb object comes with one of these proofs, so that
   "reported value = wire on the witness (mod p)" holds for every object by typing. *)
From Coq Require Import ZArith List Bool Lia Znumtheory.
From PySnark.Base Require Import FieldZ.
From PySnark.Model Require Import Lc Sym.
From PySnark.Proofs Require Import LcProofs.
Import ListNotations.
Open Scope Z_scope.

Section P.
Variable p : Z.
Notation Good := (Good p).
Notation "a == b" := (feq p a b) (at level 70).

(* unfolding equations (cbn on the mutual fixpoint veval/beval does not refold) *)
Lemma veval_ite ins ig s c a b : veval p ins ig s (VIte c a b) = if beval p ins ig s c then veval p ins ig s a else veval p ins ig s b.
Proof. reflexivity. Qed.
Lemma veval_div ins ig s a b : veval p ins ig s (VDiv a b) = veval p ins ig s a / veval p ins ig s b. Proof. reflexivity. Qed.
Lemma veval_mod ins ig s a b : veval p ins ig s (VMod a b) = veval p ins ig s a mod veval p ins ig s b. Proof. reflexivity. Qed.
Lemma veval_mul ins ig s a b : veval p ins ig s (VMul a b) = veval p ins ig s a * veval p ins ig s b. Proof. reflexivity. Qed.
Lemma veval_add ins ig s a b : veval p ins ig s (VAdd a b) = veval p ins ig s a + veval p ins ig s b. Proof. reflexivity. Qed.
Lemma veval_sub ins ig s a b : veval p ins ig s (VSub a b) = veval p ins ig s a - veval p ins ig s b. Proof. reflexivity. Qed.
Lemma veval_const ins ig s k : veval p ins ig s (VConst k) = k. Proof. reflexivity. Qed.
Lemma veval_wit ins ig s v : veval p ins ig s (VWit v) = wval s v. Proof. reflexivity. Qed.
Lemma veval_modp ins ig s a : veval p ins ig s (VModP a) = veval p ins ig s a mod p. Proof. reflexivity. Qed.
Lemma beval_and ins ig s a b : beval p ins ig s (BAnd a b) = beval p ins ig s a && beval p ins ig s b. Proof. reflexivity. Qed.
Lemma beval_eq ins ig s a b : beval p ins ig s (BEq a b) = (veval p ins ig s a =? veval p ins ig s b). Proof. reflexivity. Qed.
Ltac vsimp := repeat (rewrite veval_ite || rewrite veval_div || rewrite veval_mod || rewrite veval_mul || rewrite veval_add || rewrite veval_sub
  || rewrite veval_const || rewrite veval_wit || rewrite veval_modp || rewrite beval_and || rewrite beval_eq).

Lemma good_var v : Good (VWit v) [(v, 1)].
Proof.
  split; [repeat constructor; simpl; tauto|]. intros _ ins ig s. vsimp. cbn [eval fold_right fst snd].
  apply eq_feq. ring.
Qed.
Lemma good_const k : Good (VConst k) [(0, k)].
Proof.
  split; [repeat constructor; simpl; tauto|]. intros _ ins ig s. vsimp. cbn [eval fold_right fst snd].
  unfold wval. simpl. apply eq_feq. ring.
Qed.
Lemma good_zero : Good (VConst 0) [].
Proof. split; [constructor|]. intros _ ins ig s. reflexivity. Qed.
Lemma good_add v1 l1 v2 l2 : Good v1 l1 -> Good v2 l2 -> Good (VAdd v1 v2) (lc_add l1 l2).
Proof.
  intros [W1 C1] [W2 C2]. split; [apply wf_add; assumption|]. intros F ins ig s.
  vsimp. rewrite eval_add by assumption. rewrite (C1 F ins ig s), (C2 F ins ig s). reflexivity.
Qed.
Lemma good_neg v l : Good v l -> Good (VSub (VConst 0) v) (lc_neg l).
Proof.
  intros [W C]. split; [apply wf_neg; assumption|]. intros F ins ig s.
  vsimp. rewrite eval_neg, (C F ins ig s). apply eq_feq. ring.
Qed.
Lemma good_scale v l k : Good v l -> Good (VMul v (VConst k)) (lc_scale l k).
Proof.
  intros [W C]. split; [apply wf_scale; assumption|]. intros F ins ig s.
  vsimp. rewrite eval_scale, (C F ins ig s). reflexivity.
Qed.
(* x.value %= modulus *)
Lemma good_modp v l : Good v l -> Good (VModP v) l.
Proof.
  intros [W C]. split; [assumption|]. intros F ins ig s. vsimp. rewrite <- (C F ins ig s).
  destruct F as [Hp _]. pose proof (prime_ge_2 _ Hp).
  exists (- (veval p ins ig s v / p)). rewrite (Z.mod_eq _ p) by lia. ring.
Qed.
Lemma veval_lin ins ig s l : veval p ins ig s (VLin l) = eval (wval s) l. Proof. reflexivity. Qed.
(* coefficients reduced mod p (the model may keep wires reduced: every observation reduces them anyway) *)
Definition lc_reduce (l : lc) : lc := map (fun vc => (fst vc, snd vc mod p)) l.
Lemma wf_reduce l : wf l -> wf (lc_reduce l).
Proof. unfold wf, lc_reduce. rewrite map_map. simpl. auto. Qed.
(* x.value %= modulus, with the value written as the (reduced) wire itself: for a coherent x this is the same integer *)
Lemma good_relin l : wf l -> Good (VModP (VLin (lc_reduce l))) (lc_reduce l).
Proof.
  intros W. split; [apply wf_reduce; assumption|]. intros F ins ig s. rewrite veval_modp, veval_lin.
  destruct F as [Hp _]. pose proof (prime_ge_2 _ Hp).
  exists (- (eval (wval s) (lc_reduce l) / p)). rewrite (Z.mod_eq _ p) by lia. ring.
Qed.
(* x / k for a public k invertible mod p: value v // k when k | v, else v * k^-1 mod p; wire scaled by k^-1 *)
Lemma good_div v l k g : k mod p <> 0 -> Good v l ->
  Good (VIte (BAnd g (BEq (VMod v (VConst k)) (VConst 0))) (VDiv v (VConst k)) (VModP (VMul v (VConst (finv p k)))))
       (lc_scale l (finv p k)).
Proof.
  intros Hk [W C]. split; [apply wf_scale; assumption|]. intros F ins ig s.
  pose proof F as [Hp Hinv]. pose proof (prime_ge_2 _ Hp) as H2.
  rewrite eval_scale, <- (C F ins ig s). vsimp.
  set (x := veval p ins ig s v).
  assert (Ik : k * finv p k == 1).
  { exists ((k * finv p k) / p). pose proof (Hinv k Hk) as E. rewrite (Z.mod_eq _ p) in E by lia. lia. }
  destruct (beval p ins ig s g && (x mod k =? 0)) eqn:B.
  - apply andb_prop in B. destruct B as [_ B]. apply Z.eqb_eq in B.
    assert (k <> 0) by (intro; subst k; rewrite Z.mod_0_l in Hk by lia; congruence).
    assert (E : x = k * (x / k)) by (pose proof (Z.div_mod x k ltac:(assumption)); lia).
    transitivity ((x / k) * (k * finv p k)); [rewrite Ik; apply eq_feq; ring|].
    apply eq_feq. replace (x * finv p k) with (k * (x / k) * finv p k) by (rewrite <- E; reflexivity). ring.
  - exists (- ((x * finv p k) / p)). rewrite (Z.mod_eq _ p) by lia. ring.
Qed.
End P.
