(* C11 model (message level): what pysnark.zkinterface.backend decides to put in its files.
   The FlatBuffers byte layout is the (absent) library's business: see DESIGN.md; the harness decodes the real
   files with an independent reader and compares the decoded messages with these. *)
From Coq Require Import ZArith List Bool.
From PySnark.Model Require Import Lc.
Import ListNotations.
Open Scope Z_scope.

Inductive zmsg :=
| ZHeader (ids : list Z) (vals : list Z) (free_id : Z) (field_max : Z)
| ZWitness (ids : list Z) (vals : list Z)
| ZConstraints (cons : list (list (Z * Z) * list (Z * Z) * list (Z * Z))).

Definition zids (from : Z) (n : nat) : list Z := map (fun i => from + Z.of_nat i) (seq 0 n).
(* variable ids: 0 = one, k > 0 = k-th public value, k < 0 -> npub + |k| *)
Definition zk_var (npub : Z) (k : var) : Z := if 0 <=? k then k else npub - k.
Definition zk_lc (p npub : Z) (l : lc) : list (Z * Z) := map (fun kv => (zk_var npub (fst kv), snd kv mod p)) l.
Definition zk_con (p npub : Z) (c : lc * lc * lc) := (zk_lc p npub (fst (fst c)), zk_lc p npub (snd (fst c)), zk_lc p npub (snd c)).

Definition zk_header (p : Z) (pubs : list Z) (npriv : nat) : zmsg :=
  ZHeader (zids 1 (length pubs)) (map (fun v => v mod p) pubs) (Z.of_nat (length pubs + npriv) + 1) (p - 1).
Definition zk_witness (p : Z) (npub : nat) (privs : list Z) : zmsg :=
  ZWitness (zids (Z.of_nat npub + 1) (length privs)) (map (fun v => v mod p) privs).
Definition zk_constraints (p : Z) (npub : nat) (cons : list (lc * lc * lc)) : zmsg :=
  ZConstraints (map (zk_con p (Z.of_nat npub)) cons).

(* computation.zkif: circuit, witness, constraints;  circuit.zkif: circuit, constraints *)
Definition computation_file (p : Z) (pubs privs : list Z) (cons : list (lc * lc * lc)) : list zmsg :=
  [zk_header p pubs (length privs); zk_witness p (length pubs) privs; zk_constraints p (length pubs) cons].
Definition circuit_file (p : Z) (pubs privs : list Z) (cons : list (lc * lc * lc)) : list zmsg :=
  [zk_header p pubs (length privs); zk_constraints p (length pubs) cons].

(* the assignment a verifier reconstructs from header + witness *)
Definition zassign (p : Z) (pubs privs : list Z) (id : Z) : Z :=
  if id =? 0 then 1 else nth (Z.to_nat (id - 1)) (map (fun v => v mod p) (pubs ++ privs)) 0.
Definition zeval (a : Z -> Z) (l : list (Z * Z)) : Z := fold_right (fun kv acc => snd kv * a (fst kv) + acc) 0 l.
