(* Backend linear combinations.
   - dict model: snarkjsbackend.LinearCombination / zkinterface.backend.LinearCombination
     (Python dict in insertion order: association list with unique keys)
   - sig model: qaptools.backend.Sig (list of (coeff, wire-name) terms, coefficients
     reduced mod vc_p by __mul__/__neg__, __add__ = list concatenation) *)
From Coq Require Import ZArith List Bool Zpow_facts.
Import ListNotations.
Open Scope Z_scope.

Definition var := Z.   (* 0 = constant one; k>0 = k-th public value; k<0 = |k|-th private value *)
Definition lc := list (var * Z).

Fixpoint lc_get (l : lc) (v : var) : option Z :=
  match l with [] => None | (w, c) :: l' => if w =? v then Some c else lc_get l' v end.

(* LinearCombination.__add__ : keys of self in order (summing where other has the key),
   then the keys of other that self lacks, in other's order *)
Definition lc_add (a b : lc) : lc :=
  map (fun vc => (fst vc, match lc_get b (fst vc) with Some d => snd vc + d | None => snd vc end)) a
  ++ filter (fun vc => match lc_get a (fst vc) with Some _ => false | None => true end) b.
(* __mul__ : {key: value*other} *)
Definition lc_scale (a : lc) (k : Z) : lc := map (fun vc => (fst vc, snd vc * k)) a.
(* __neg__ : self * -1 ;  __sub__ : self + (-other) *)
Definition lc_neg (a : lc) : lc := lc_scale a (-1).
Definition lc_sub (a b : lc) : lc := lc_add a (lc_neg b).
Definition lc_zero : lc := [].
Definition lc_one : lc := [(0, 1)].
Definition lc_var (v : var) : lc := [(v, 1)].

(* keys of a Python dict are unique *)
Definition wf (l : lc) : Prop := NoDup (map fst l).

Definition eval (w : var -> Z) (l : lc) : Z := fold_right (fun vc acc => snd vc * w (fst vc) + acc) 0 l.

(* expression trees over the class interface *)
Inductive lcexpr :=
| LVar (v : var) | LOne | LZero
| LAdd (a b : lcexpr) | LSub (a b : lcexpr) | LNeg (a : lcexpr) | LScale (a : lcexpr) (k : Z).

Fixpoint build (e : lcexpr) : lc :=
  match e with
  | LVar v => lc_var v | LOne => lc_one | LZero => lc_zero
  | LAdd a b => lc_add (build a) (build b) | LSub a b => lc_sub (build a) (build b)
  | LNeg a => lc_neg (build a) | LScale a k => lc_scale (build a) k
  end.

(* the field expression the tree denotes, over Z (so a fortiori modulo every p) *)
Fixpoint sem (w : var -> Z) (e : lcexpr) : Z :=
  match e with
  | LVar v => w v | LOne => w 0 | LZero => 0
  | LAdd a b => sem w a + sem w b | LSub a b => sem w a - sem w b
  | LNeg a => - sem w a | LScale a k => sem w a * k
  end.

(* ---- qaptools Sig ---- *)
Section Sig.
Variable p : Z.
Definition sg := list (Z * var).    (* (coefficient, wire) *)
Definition sg_add (a b : sg) : sg := a ++ b.
Definition sg_scale (a : sg) (k : Z) : sg := map (fun cv => ((fst cv * k) mod p, snd cv)) a.
Definition sg_neg (a : sg) : sg := map (fun cv => ((- fst cv) mod p, snd cv)) a.
Definition sg_sub (a b : sg) : sg := sg_add a (sg_neg b).
Definition sg_eval (w : var -> Z) (l : sg) : Z := fold_right (fun cv acc => fst cv * w (snd cv) + acc) 0 l.
Fixpoint sg_build (e : lcexpr) : sg :=
  match e with
  | LVar v => [(1, v)] | LOne => [(1, 0)] | LZero => []
  | LAdd a b => sg_add (sg_build a) (sg_build b) | LSub a b => sg_sub (sg_build a) (sg_build b)
  | LNeg a => sg_neg (sg_build a) | LScale a k => sg_scale (sg_build a) k
  end.
End Sig.

(* ---- field inverse as computed by pysnark.gmpy.invert (pure-Python branch: gmpy2 absent):
        m = 2 -> x % 2 ; else pow(x, m-2, m);  y = 0 -> ZeroDivisionError ---- *)
Definition invert (x m : Z) : option Z :=
  let y := if m =? 2 then x mod 2 else Zpow_facts.Zpow_mod x (m - 2) m in
  if y =? 0 then None else Some y.
