(* Stage 1 of the model, part 1: the generator monad and the LinComb gadgets of pysnark/runtime.py.
   Each definition transcribes the Python method named in its comment: same allocations, same
   constraints in the same order, run-time checks as CRaiseIf.  Stage 1 never sees input values. *)
From Coq Require Import ZArith List Bool.
From PySnark.Model Require Import Lc Sym Good.
Import ListNotations.
Open Scope Z_scope.

Record cfg := { bitlength : nat; resolution : Z }.

Section WithP.
Context {p : Z}.       (* the backend's modulus (implicit everywhere) *)
Local Notation slc := (Sym.slc p).
Local Notation gtriple := (Sym.gtriple p).
Local Notation cmd := (Sym.cmd p).

(* generator state *)
Record gst := {
  npub : Z; npriv : Z; noid : Z;
  guard : option slc; ignore : bexp; one : slc;
  unw : option gtriple     (* globals at entry of the outermost active `guarded` wrapper, if any *)
}.

Definition cur_triple (s : gst) : gtriple := {| g_guard := guard s; g_ignore := ignore s; g_one := one s |}.
Definition unw_triple (s : gst) : gtriple := match unw s with Some t => t | None => cur_triple s end.
Definition var_slc (v : var) : slc := {| sval := VWit v; wire := [(v, 1)]; oid := 0; good := good_var p v |}.
Definition with_oid (x : slc) (o : Z) : slc := {| sval := sval x; wire := wire x; oid := o; good := good x |}.

(* what [Emit] may append: constraints and observations (allocations and raises have their own primitives) *)
Definition emittable (c : cmd) : bool := match c with CEmit _ _ _ | COut _ _ _ | COutLC _ _ => true | _ => false end.

(* The generator monad is a FREE monad over the few primitive effects the library has, so that properties
   preserved by every primitive hold of every gadget and every program by one induction (Proofs/Frame.v).
   [lvl] separates the code that can only change the runtime globals inside a try/finally region ([Local]:
   runtime.guarded, lazy if_then_else) -- level false: all of runtime.py, boolean.py, fixedpoint.py and the
   non-block part of branching.py -- from the block API (_if/_while/_range: add_guard / restore_guard called
   explicitly, no try/finally) and ignore_errors(), which need [SetGlobals] and live at level true. *)
Inductive M (lvl : bool) : Type -> Type :=
| Ret {A} (a : A) : M lvl A
| Raise {A} (e : exn) : M lvl A                                (* exception decided by types / public values only *)
| Get {A} (k : gst -> M lvl A) : M lvl A
| MPriv {A} (h : valexp) (k : slc -> M lvl A) : M lvl A          (* backend.privval *)
| MPub {A} (h : valexp) (k : slc -> M lvl A) : M lvl A           (* backend.pubval *)
| Fresh {A} (k : Z -> M lvl A) : M lvl A                        (* a new Python object identity *)
| Emit {A} (c : cmd) (k : M lvl A) : M lvl A                    (* a constraint or an observation *)
| RaiseIf {A} (b : bexp) (e : exn) (k : M lvl A) : M lvl A      (* exception whose occurrence depends on values *)
| Local {A X} (g : slc) (i : bexp) (body : M lvl X) (k : X -> M lvl A) : M lvl A
      (* try/finally region: inside, guard = g, _ignore_errors = i, LinComb.ONE = g; restored on both exits *)
| SetGlobals {A} (H : lvl = true) (g : option slc) (i : bexp) (o : slc) (k : M lvl A) : M lvl A.
Arguments Ret {lvl A} _. Arguments Raise {lvl A} _. Arguments Get {lvl A} _. Arguments MPriv {lvl A} _ _.
Arguments MPub {lvl A} _ _. Arguments Fresh {lvl A} _. Arguments Emit {lvl A} _ _. Arguments RaiseIf {lvl A} _ _ _.
Arguments Local {lvl A X} _ _ _ _. Arguments SetGlobals {lvl A} _ _ _ _ _.

Fixpoint bind {lvl A B} (m : M lvl A) : (A -> M lvl B) -> M lvl B :=
  match m in M _ T return (T -> M lvl B) -> M lvl B with
  | Ret a => fun f => f a
  | Raise e => fun _ => Raise e
  | Get k => fun f => Get (fun s => bind (k s) f)
  | MPriv h k => fun f => MPriv h (fun x => bind (k x) f)
  | MPub h k => fun f => MPub h (fun x => bind (k x) f)
  | Fresh k => fun f => Fresh (fun o => bind (k o) f)
  | Emit c k => fun f => Emit c (bind k f)
  | RaiseIf b e k => fun f => RaiseIf b e (bind k f)
  | Local g i body k => fun f => Local g i body (fun x => bind (k x) f)
  | SetGlobals H g i o k => fun f => SetGlobals H g i o (bind k f)
  end.
Definition ret {lvl A} (a : A) : M lvl A := Ret a.
Notation "x <- m ;; f" := (bind m (fun x => f)) (at level 61, m at next level, right associativity).
Notation "m ;;; f" := (bind m (fun _ => f)) (at level 61, right associativity).

Definition upd_counters (s : gst) (np nw no : Z) : gst :=
  {| npub := np; npriv := nw; noid := no; guard := guard s; ignore := ignore s; one := one s; unw := unw s |}.
Definition upd_globals (s : gst) (g : option slc) (i : bexp) (o : slc) (u : option gtriple) : gst :=
  {| npub := npub s; npriv := npriv s; noid := noid s; guard := g; ignore := i; one := o; unw := u |}.

(* the semantics of a computation: final result, final state, commands appended (writer style).
   Model-internal sanity checks (pysnark has none): every expression handed to a primitive effect -- a witness hint, a raise
   condition, a constraint's wires and values, an observed value, the globals of a region -- may only mention variables that
   are already allocated; otherwise the model itself fails with [ModelError].  The checks make well-scopedness of every
   generated command list a theorem (Proofs/Frame.v: run_scoped, run_vscoped) instead of a typing discipline threaded through
   every gadget; they have never fired (a ModelError would show up as a trace mismatch in the correspondence). *)
Definition model_err {A} (s : gst) : (A + exn) * gst * list cmd := (inr ModelError, s, [CRaiseIf BTrue ModelError (unw_triple s)]).
Definition globals_scoped (np nw : Z) (g : option slc) (i : bexp) (o : slc) : bool :=
  match g with Some x => slc_scoped np nw x | None => true end && bscopedb np nw i && slc_scoped np nw o.
Fixpoint run {lvl A} (m : M lvl A) : gst -> (A + exn) * gst * list cmd :=
  match m in M _ T return gst -> (T + exn) * gst * list cmd with
  | Ret a => fun s => (inl a, s, [])
  | Raise e => fun s => (inr e, s, [CRaiseIf BTrue e (unw_triple s)])
  | Get k => fun s => run (k s) s
  | MPriv h k => fun s => let v := - (npriv s + 1) in
                if vscopedb (npub s) (npriv s) h then
                match run (k (var_slc v)) (upd_counters s (npub s) (npriv s + 1) (noid s)) with (r, s', c) => (r, s', CAlloc Priv h :: c) end
                else model_err s
  | MPub h k => fun s => let v := npub s + 1 in
               if vscopedb (npub s) (npriv s) h then
               match run (k (var_slc v)) (upd_counters s (npub s + 1) (npriv s) (noid s)) with (r, s', c) => (r, s', CAlloc Pub h :: c) end
               else model_err s
  | Fresh k => fun s => run (k (noid s)) (upd_counters s (npub s) (npriv s) (noid s + 1))
  | Emit c k => fun s =>
      if emittable c && cmd_scoped (npub s) (npriv s) c && cmd_vscoped (npub s) (npriv s) c
      then match run k s with (r, s', cs) => (r, s', c :: cs) end
      else model_err s
  | RaiseIf b e k => fun s =>
      if bscopedb (npub s) (npriv s) b then match run k s with (r, s', cs) => (r, s', CRaiseIf b e (unw_triple s) :: cs) end
      else model_err s
  | Local g i body k => fun s =>
      if globals_scoped (npub s) (npriv s) (Some g) i g then
      let s_in := upd_globals s (Some g) i g (match unw s with None => Some (cur_triple s) | Some u => Some u end) in
      match run body s_in with
      | (inl x, s1, c1) =>
          match run (k x) (upd_globals s1 (guard s) (ignore s) (one s) (unw s)) with (r, s2, c2) => (r, s2, c1 ++ c2) end
      | (inr e, s1, c1) => (inr e, upd_globals s1 (guard s) (ignore s) (one s) (unw s), c1)
      end
      else model_err s
  | SetGlobals _ g i o k => fun s =>
      if globals_scoped (npub s) (npriv s) g i o then run k (upd_globals s g i o (unw s)) else model_err s
  end.

(* level false embeds in level true *)
Fixpoint lift {A} (m : M false A) : M true A :=
  match m in M _ T return M true T with
  | Ret a => Ret a
  | Raise e => Raise e
  | Get k => Get (fun s => lift (k s))
  | MPriv h k => MPriv h (fun x => lift (k x))
  | MPub h k => MPub h (fun x => lift (k x))
  | Fresh k => Fresh (fun o => lift (k o))
  | Emit c k => Emit c (lift k)
  | RaiseIf b e k => RaiseIf b e (lift k)
  | Local g i body k => Local g i (lift body) (fun x => lift (k x))
  | SetGlobals H g i o k => match Bool.diff_false_true H with end
  end.

Definition G (A : Type) := M false A.        (* everything in runtime.py / boolean.py / fixedpoint.py *)
Definition get {lvl} : M lvl gst := Get Ret.
Definition emitc {lvl} (c : cmd) : M lvl unit := Emit c (Ret tt).
Definition raise_if {lvl} (b : bexp) (e : exn) : M lvl unit := RaiseIf b e (Ret tt).
Definition static_raise {lvl A} (e : exn) : M lvl A := Raise e.
Definition privval {lvl} (h : valexp) : M lvl slc := MPriv h Ret.
Definition pubval {lvl} (h : valexp) : M lvl slc := MPub h Ret.
Definition fresh_oid {lvl} : M lvl Z := Fresh Ret.
Definition set_globals (g : option slc) (i : bexp) (o : slc) : M true unit := SetGlobals eq_refl g i o (Ret tt).

(* ---- pure LinComb constructors ---- *)
Definition constv (k : Z) : slc := {| sval := VConst k; wire := [(0, k)]; oid := 0; good := good_const p k |}.          (* ConstVal(k) = LinComb(k, one()*k) *)
Definition ZERO : slc := {| sval := VConst 0; wire := []; oid := 2; good := good_zero p |}.          (* LinComb.ZERO *)
Definition ONE_SAFE : slc := {| sval := VConst 1; wire := [(0, 1)]; oid := 1; good := good_const p 1 |}. (* LinComb.ONE_SAFE *)
Definition add (x y : slc) : slc :=
  {| sval := VAdd (sval x) (sval y); wire := lc_add (wire x) (wire y); oid := 0; good := good_add p _ _ _ _ (good x) (good y) |}.   (* __add__ on two LinCombs *)
Definition neg (x : slc) : slc :=
  {| sval := VSub (VConst 0) (sval x); wire := lc_neg (wire x); oid := 0; good := good_neg p _ _ (good x) |}.             (* __neg__ *)
Definition sub (x y : slc) : slc := add x (neg y).                                             (* __sub__ = self + (-other) *)
Definition scale (x : slc) (k : Z) : slc :=
  {| sval := VMul (sval x) (VConst k); wire := lc_scale (wire x) k; oid := 0; good := good_scale p _ _ k (good x) |}. (* __mul__ with int *)
Definition addc (x : slc) (k : Z) : slc := add x (constv k).        (* x + k  = x + ConstVal(k) *)
Definition subc (x : slc) (k : Z) : slc := add x (constv (- k)).    (* x - k  = x + (-k) = x + ConstVal(-k) *)
Definition rsubc (k : Z) (x : slc) : slc := add (neg x) (constv k). (* k - x  = (-x).__radd__(k) = (-x) + ConstVal(k) *)
Definition recast_modp (x : slc) : slc :=            (* x.value %= modulus (in place) *)
  {| sval := VModP (sval x); wire := wire x; oid := oid x; good := good_modp p _ _ (good x) |}.
(* x.value %= modulus where the model keeps the wire reduced mod p and writes the value as the wire itself (used where
   unreduced coefficients and nested value expressions would explode: Poseidon's linear layers); extensionally the same
   value as [recast_modp] because x is coherent *)
Definition relin_modp (x : slc) : slc :=
  {| sval := VModP (VLin (lc_reduce p (wire x))); wire := lc_reduce p (wire x); oid := oid x; good := good_relin p _ (proj1 (good x)) |}.
Definition zero_anon : slc := {| sval := VConst 0; wire := []; oid := 0; good := good_zero p |}.

Definition emit (a b y : slc) : G unit := emitc (CEmit a b y).       (* add_constraint_unsafe *)

Definition isg (s : gst) : bexp := match guard s with None => BTrue | Some g => BEq (sval g) (VConst 1) end.  (* is_guard() *)
Definition vne (a b : valexp) : bexp := BNot (BEq a b).
Definition vlt0 (a : valexp) : bexp := BLt a (VConst 0).

(* LinComb.__mul__ with a LinComb *)
Definition mul (x y : slc) : G slc := r <- privval (VMul (sval x) (sval y)) ;; emit x y r ;;; ret r.

(* add_constraint(v, w, y, check) *)
Definition add_constraint (v w y : slc) (check : bool) : G unit :=
  s <- get ;;
  match guard s with
  | Some g =>
      d <- privval (VSub (VMul (sval v) (sval w)) (sval y)) ;;
      emit v w (add y d) ;;; emit g d ZERO
  | None =>
      raise_if (BAnd (vne (VMul (sval v) (sval w)) (sval y)) (if check then BNot (ignore s) else BFalse)) AssertionError ;;;
      emit v w y
  end.

(* LinComb.assert_zero *)
Definition assert_zero (x : slc) : G unit :=
  s <- get ;;
  raise_if (BAnd (BNot (ignore s)) (vne (sval x) (VConst 0))) AssertionError ;;;
  add_constraint ZERO ZERO x true.

(* LinComb.assert_nonzero *)
Definition assert_nonzero (x : slc) : G unit :=
  s <- get ;;
  let A := BAnd (isg s) (vne (sval x) (VConst 0)) in
  raise_if (BAnd (BNot A) (BNot (ignore s))) AssertionError ;;;
  raise_if (BAnd A (BEq (VModP (sval x)) (VConst 0))) ZeroDivisionError ;;;
  w <- privval (VIte A (VInv (sval x)) (VConst 0)) ;;
  add_constraint x w (one s) false.

(* LinComb.check_zero : returns the LinComb inside the (unconstrained-by-ctor) LinCombBool *)
Definition check_zero (x : slc) : G slc :=
  let z := VB2Z (BEq (sval x) (VConst 0)) in
  r <- privval z ;;
  raise_if (BEq (VModP (VAdd (sval x) z)) (VConst 0)) ZeroDivisionError ;;;
  w <- privval (VInv (VAdd (sval x) z)) ;;
  emit x w (sub ONE_SAFE r) ;;; emit x r ZERO ;;; ret r.

(* LinCombBool(lc) with constrain=True: value check is unconditional *)
Definition is_boolv (v : valexp) : bexp := BOr (BEq v (VConst 0)) (BEq v (VConst 1)).
Definition boolctor (x : slc) : G slc :=
  raise_if (BNot (is_boolv (sval x))) ValueError ;;;
  add_constraint x (rsubc 1 x) ZERO true ;;; ret x.
(* PrivValBool(v): parse_boolean raises ValueError on non-boolean values, then LinCombBool(PrivVal(v)) *)
Definition privbool (h : valexp) : G slc :=
  raise_if (BNot (is_boolv h)) ValueError ;;; x <- privval h ;; boolctor x.
Definition pubbool (h : valexp) : G slc :=
  raise_if (BNot (is_boolv h)) ValueError ;;; x <- pubval h ;; boolctor x.

Fixpoint mapM_range {A} (f : nat -> G A) (i n : nat) : G (list A) :=
  match n with O => ret [] | S n' => a <- f i ;; l <- mapM_range f (S i) n' ;; ret (a :: l) end.
Fixpoint mapM {A B} (f : A -> G B) (l : list A) : G (list B) :=
  match l with [] => ret [] | a :: l' => b <- f a ;; r <- mapM f l' ;; ret (b :: r) end.

(* LinComb.from_bits: sum([b_i * (1 << i)]) -- Python's sum starts from int 0, so the first step is 0 + t0 = t0 + ConstVal(0) *)
Fixpoint from_bits_aux (acc : slc) (bs : list slc) (i : Z) : slc :=
  match bs with [] => acc | b :: bs' => from_bits_aux (add acc (scale b (2 ^ i))) bs' (i + 1) end.
Definition from_bits (bs : list slc) : slc :=
  match bs with [] => zero_anon (* plain int 0; callers test for the empty list first *)
              | b :: bs' => from_bits_aux (addc (scale b 1) 0) bs' 1 end.

(* (v & (1 << i)) >> i *)
Definition pybit (x : valexp) (i : nat) : valexp :=
  VShr (VLand x (VShl (VConst 1) (VConst (Z.of_nat i)))) (VConst (Z.of_nat i)).

(* LinComb.to_bits(bits=k) *)
Definition to_bits (x : slc) (k : nat) : G (list slc) :=
  s <- get ;;
  raise_if (BAnd (BNot (ignore s)) (BOr (vlt0 (sval x)) (BNot (BBitLenLe (sval x) (Z.of_nat k))))) AssertionError ;;;
  bs <- mapM_range (fun i => privbool (pybit (sval x) i)) 0 k ;;
  assert_zero (sub x (from_bits bs)) ;;; ret bs.

Section WithCfg.
Variable c : cfg.
Definition nbits : nat := bitlength c.

(* LinComb.check_positive(bits=k) *)
Definition check_positive (x : slc) (k : nat) : G slc :=
  s <- get ;;
  let A := BAnd (isg s) (BBitLenLe (sval x) (Z.of_nat k)) in
  raise_if (BAnd (BNot A) (BNot (ignore s))) ValueError ;;;
  r <- privbool (VIte A (VB2Z (BLe (VConst 0) (sval x))) (VConst 0)) ;;
  let ab := VIte (BLe (VConst 0) (sval x)) (sval x) (VSub (VSub (VConst 0) (sval x)) (VConst 1)) in
  bs <- mapM_range (fun i => privbool (VIte A (pybit ab i) (VConst 0))) 0 k ;;
  add_constraint (scale r 2) x (add (add x (from_bits bs)) (rsubc 1 r)) true ;;; ret r.

(* LinComb.assert_positive(bits=k): run-time check, then to_bits(k) *)
Definition assert_positive (x : slc) (k : nat) : G unit :=
  s <- get ;;
  raise_if (BAnd (BNot (ignore s)) (BOr (vlt0 (sval x)) (BNot (BBitLenLe (sval x) (Z.of_nat k))))) AssertionError ;;;
  _ <- to_bits x k ;; ret tt.

(* comparisons (both operands LinComb) *)
Definition lt (x y : slc) : G slc := check_positive (subc (sub y x) 1) nbits.   (* (other-self-1) *)
Definition le (x y : slc) : G slc := check_positive (sub y x) nbits.
Definition gt (x y : slc) : G slc := check_positive (subc (sub x y) 1) nbits.
Definition ge (x y : slc) : G slc := check_positive (sub x y) nbits.
Definition eq (x y : slc) : G slc := check_zero (sub x y).
Definition bnot (r : slc) : slc := rsubc 1 r.                                   (* LinCombBool.__invert__: 1 - lc *)
Definition ne (x y : slc) : G slc := r <- check_zero (sub x y) ;; ret (bnot r).

(* LinComb._ensurelc on an int: LinComb.ONE * val (ONE is the guard inside a guarded region) *)
Definition ensurelc_int (k : Z) : G slc := s <- get ;; ret (scale (one s) k).

Definition assert_rel (rel : valexp -> valexp -> bexp) (d : slc -> slc -> slc) (x y : slc) : G unit :=
  s <- get ;;
  raise_if (BAnd (BNot (ignore s)) (BNot (rel (sval x) (sval y)))) AssertionError ;;;
  assert_positive (d x y) nbits.
Definition assert_lt := assert_rel BLt (fun x y => subc (sub y x) 1).
Definition assert_le := assert_rel BLe (fun x y => sub y x).
Definition assert_gt := assert_rel (fun a b => BLt b a) (fun x y => subc (sub x y) 1).
Definition assert_ge := assert_rel (fun a b => BLe b a) (fun x y => sub x y).
Definition assert_eq (x y : slc) : G unit :=
  s <- get ;;
  raise_if (BAnd (BNot (ignore s)) (vne (sval x) (sval y))) AssertionError ;;;
  assert_zero (sub x y).
Definition assert_ne (x y : slc) : G unit :=
  s <- get ;;
  raise_if (BAnd (BNot (ignore s)) (BEq (sval x) (sval y))) AssertionError ;;;
  assert_nonzero (sub x y).
(* assert_range(lo, hi): run-time lo <= x < hi; circuit (x-lo) >= 0 and (hi-x-1) >= 0 *)
Definition assert_range (x lo hi : slc) : G unit :=
  s <- get ;;
  raise_if (BAnd (BNot (ignore s)) (BOr (BLt (sval x) (sval lo)) (BLe (sval hi) (sval x)))) AssertionError ;;;
  assert_positive (sub x lo) nbits ;;; assert_positive (subc (sub hi x) 1) nbits.

(* LinComb.val(): (self - PubVal(self.value)).assert_zero() *)
Definition lcval (x : slc) : G unit := o <- pubval (sval x) ;; assert_zero (sub x o).

(* __truediv__ by an int k <> 0 (k = 0 is a static ValueError, handled by the dispatcher) *)
Definition truediv_int (x : slc) (k : Z) : G slc :=
  s <- get ;;
  let B := BAnd (isg s) (BEq (VMod (sval x) (VConst k)) (VConst 0)) in
  raise_if (BAnd (BNot B) (BNot (ignore s))) ValueError ;;;
  match Z.eq_dec (k mod p) 0 with
  | left _ => static_raise ZeroDivisionError                                (* backend.fieldinverse(k) *)
  | right Hk => ret {| sval := VIte B (VDiv (sval x) (VConst k)) (VModP (VMul (sval x) (VConst (finv p k))));
                       wire := lc_scale (wire x) (finv p k); oid := 0;
                       good := good_div p _ _ k (isg s) Hk (good x) |}
  end.
(* __truediv__ by a LinComb *)
Definition truediv (x y : slc) : G slc :=
  s <- get ;;
  raise_if (BEq (sval y) (VConst 0)) ValueError ;;;
  let B := BAnd (isg s) (BEq (VMod (sval x) (sval y)) (VConst 0)) in
  raise_if (BAnd (BNot B) (BNot (ignore s))) ValueError ;;;
  r <- privval (VIte B (VDiv (sval x) (sval y)) (VConst 0)) ;;
  add_constraint y r x true ;;; ret r.
(* __divmod__ with a LinComb divisor (ints are wrapped in ConstVal by the caller) *)
Definition divmod (x y : slc) : G (slc * slc) :=
  raise_if (BEq (sval y) (VConst 0)) ValueError ;;;
  quo <- privval (VDiv (sval x) (sval y)) ;;
  res <- mul quo y ;;
  rem <- privval (VSub (sval x) (sval res)) ;;
  add_constraint quo y (sub x rem) true ;;;
  assert_lt rem y ;;;
  assert_positive rem nbits ;;;
  ret (quo, rem).

(* __pow__ with a public exponent: self * self ** (k-1); k = 0 -> LinComb.ONE, k = 1 -> self *)
Fixpoint pow_nat (x : slc) (k : nat) : G slc :=
  match k with
  | O => s <- get ;; ret (one s)
  | S O => ret x
  | S k' => y <- pow_nat x k' ;; mul x y
  end.

(* if_then_else on LinCombs with a LinCombBool condition c (its .lc): falsev + cond * (truev - falsev) *)
Definition ite_lc (cnd t f : slc) : G slc := m <- mul cnd (sub t f) ;; ret (add f m).

(* __pow__ with a LinComb exponent *)
Fixpoint powers (curr : slc) (n : nat) : G (list slc) :=
  match n with
  | O => ret []
  | S n' => sq <- mul curr curr ;;       (* curr ** 2 = curr * curr ** 1 *)
            let sq' := recast_modp sq in
            l <- powers sq' n' ;; ret (sq' :: l)
  end.
Definition same_obj (a b : slc) : bool := andb (negb (oid a =? 0)) (oid a =? oid b).   (* Python `a is b` *)
Definition select_power (bit power : slc) : G slc :=
  (* if_then_else(bit == 1, power, LinComb.ONE);  bit is a LinCombBool: __eq__ -> self.lc == _ensurebool(1).lc;
     the argument `bit == 1` is evaluated before if_then_else tests `truev is falsev` *)
  k1 <- boolctor (constv 1) ;;           (* LinCombBool(ConstVal(1)) : one booleanity constraint on a constant *)
  e <- eq bit k1 ;;
  s <- get ;;
  if same_obj power (one s) then ret power else ite_lc e power (one s).
Fixpoint zipM {A B C} (f : A -> B -> G C) (l1 : list A) (l2 : list B) : G (list C) :=
  match l1, l2 with
  | a :: l1', b :: l2' => r <- f a b ;; rs <- zipM f l1' l2' ;; ret (r :: rs)
  | _, _ => ret []
  end.
Fixpoint prodM (acc : slc) (l : list slc) : G slc :=
  match l with
  | [] => ret acc
  | m :: l' => r <- mul acc m ;; prodM (recast_modp r) l'
  end.
Definition pow_lc (x y : slc) : G slc :=
  bits <- to_bits y nbits ;;
  ps <- powers x nbits ;;
  ms <- zipM select_power bits (x :: ps) ;;
  s <- get ;;
  prodM (one s) ms.

(* bitwise operators on two LinCombs *)
Definition bitwise (f : slc -> slc -> G slc) (x y : slc) : G slc :=
  xb <- to_bits x nbits ;; yb <- to_bits y nbits ;;
  rs <- zipM f xb yb ;; ret (from_bits rs).
(* on bits (LinCombBool operands): x * y -> self.lc * other -> LinComb * LinCombBool -> NotImplemented -> LinCombBool.__rmul__ = other.lc * self *)
Definition bit_and (a b : slc) : G slc := mul b a.
Definition bit_xor (a b : slc) : G slc := m <- mul b (scale a 2) ;; ret (sub (add a b) m).   (* x + y - 2*x*y *)
Definition bit_or (a b : slc) : G slc := m <- mul b a ;; ret (sub (add a b) m).              (* x + y - x*y *)
Definition land_lc := bitwise bit_and.
Definition lxor_lc := bitwise bit_xor.
Definition lor_lc := bitwise bit_or.
Definition invert_lc (x : slc) : G slc := bs <- to_bits x nbits ;; ret (from_bits (map bnot bs)).
(* x >> k for a public k >= 0 *)
Definition rshift_int (x : slc) (k : nat) : G slc := bs <- to_bits x nbits ;; ret (from_bits (skipn k bs)).

(* the first half of add_guard(cond) for a LinComb cond: value check and the (conjoined) guard object.
   `guard & cond` is the bitwise-AND gadget, executed under the OLD guard *)
Definition new_guard (cnd : slc) : G (slc * bexp) :=
  s <- get ;;
  raise_if (BAnd (BNot (ignore s)) (BAnd (vne (sval cnd) (VConst 0)) (vne (sval cnd) (VConst 1)))) RuntimeError ;;;
  g <- match guard s with None => ret cnd | Some g0 => land_lc g0 cnd end ;;
  o <- (if oid g =? 0 then fresh_oid else ret (oid g)) ;;
  ret (with_oid g o, BOr (ignore s) (BEq (sval cnd) (VConst 0))).
(* guarded(cond)(fn)(): add_guard; try: fn() finally: restore_guard -- the [Local] region *)
Definition guarded {A} (cnd : slc) (body : G A) : G A :=
  gi <- new_guard cnd ;;
  Local (fst gi) (snd gi) body Ret.
(* add_guard / restore_guard called explicitly (block API): no try/finally *)
Definition add_guard (cnd : slc) : M true gtriple :=
  s <- get ;;
  gi <- lift (new_guard cnd) ;;
  set_globals (Some (fst gi)) (snd gi) (fst gi) ;;;
  ret (cur_triple s).
Definition restore_guard (b : gtriple) : M true unit := set_globals (g_guard b) (g_ignore b) (g_one b).
End WithCfg.
End WithP.
Notation "x <- m ;; f" := (bind m (fun x => f)) (at level 61, m at next level, right associativity).
Notation "m ;;; f" := (bind m (fun _ => f)) (at level 61, right associativity).
Arguments Ret {p lvl A} _. Arguments Raise {p lvl A} _. Arguments Get {p lvl A} _. Arguments MPriv {p lvl A} _ _.
Arguments MPub {p lvl A} _ _. Arguments Fresh {p lvl A} _. Arguments Emit {p lvl A} _ _. Arguments RaiseIf {p lvl A} _ _ _.
Arguments Local {p lvl A X} _ _ _ _. Arguments SetGlobals {p lvl A} _ _ _ _ _.
