(* C10 model: the two files snarkjsbackend.prove() writes, transcribed from its source, and independent
   decoders written from the iden3 binary format descriptions (.wtns and .r1cs). *)
From Coq Require Import ZArith List Bool.
From PySnark.Model Require Import Lc.
Import ListNotations.
Open Scope Z_scope.

(* ---------- little-endian (Python: bytes([(val >> (i*8)) & 255 for i in range(len)])) ---------- *)
Fixpoint le (n : nat) (v : Z) : list Z := match n with O => [] | S n' => v mod 256 :: le n' (v / 256) end.
Fixpoint unle (l : list Z) : Z := match l with [] => 0 | b :: l' => b + 256 * unle l' end.

(* ---------- parser combinators ---------- *)
Definition P (A : Type) := list Z -> option (A * list Z).
Definition pret {A} (a : A) : P A := fun l => Some (a, l).
Definition pbind {A B} (m : P A) (f : A -> P B) : P B := fun l => match m l with Some (a, r) => f a r | None => None end.
Notation "x <-- m ;; f" := (pbind m (fun x => f)) (at level 61, m at next level, right associativity).
Definition pfail {A} : P A := fun _ => None.
Definition pguard (b : bool) : P unit := if b then pret tt else pfail.
Definition take (n : nat) : P (list Z) := fun l => if (length l <? n)%nat then None else Some (firstn n l, skipn n l).
Definition uN (n : nat) : P Z := l <-- take n ;; pret (unle l).
Fixpoint rep {A} (k : nat) (p : P A) : P (list A) :=
  match k with O => pret [] | S k' => a <-- p ;; l <-- rep k' p ;; pret (a :: l) end.
Fixpoint leqb (a b : list Z) : bool :=
  match a, b with [], [] => true | x :: a', y :: b' => (x =? y) && leqb a' b' | _, _ => false end.
Definition eof : P unit := fun l => match l with [] => Some (tt, []) | _ => None end.
(* run [q] on exactly the next [n] bytes, which it must consume entirely (declared section size = actual content) *)
Definition section {A} (n : nat) (q : P A) : P A :=
  body <-- take n ;; match q body with Some (a, []) => pret a | _ => pfail end.

(* ---------- witness.wtns ---------- *)
Definition ascii_wtns : list Z := [119; 116; 110; 115].
Definition encode_wtns (p : Z) (pubs privs : list Z) : list Z :=
  let n := Z.of_nat (length pubs + length privs + 1) in
  ascii_wtns ++ le 4 2 ++ le 4 2
  ++ le 4 1 ++ le 8 40 ++ le 4 32 ++ le 32 p ++ le 4 n
  ++ le 4 2 ++ le 8 (n * 32)
  ++ le 32 1 ++ flat_map (fun v => le 32 (v mod p)) pubs ++ flat_map (fun v => le 32 (v mod p)) privs.

Definition decode_wtns : P (Z * list Z) :=
  m <-- take 4 ;; _ <-- pguard (leqb m ascii_wtns) ;;
  ver <-- uN 4 ;; _ <-- pguard (ver =? 2) ;;
  nsec <-- uN 4 ;; _ <-- pguard (nsec =? 2) ;;
  s1 <-- uN 4 ;; _ <-- pguard (s1 =? 1) ;;
  l1 <-- uN 8 ;; fs <-- uN 4 ;; _ <-- pguard (l1 =? 4 + fs + 4) ;;
  prime <-- uN (Z.to_nat fs) ;;
  nw <-- uN 4 ;;
  s2 <-- uN 4 ;; _ <-- pguard (s2 =? 2) ;;
  l2 <-- uN 8 ;; _ <-- pguard (l2 =? nw * fs) ;;
  vals <-- rep (Z.to_nat nw) (uN (Z.to_nat fs)) ;;
  _ <-- pguard (forallb (fun v => v <? prime) vals) ;;        (* canonical field elements *)
  _ <-- eof ;;
  pret (prime, vals).

(* ---------- circuit.r1cs ---------- *)
Definition ascii_r1cs : list Z := [114; 49; 99; 115].
(* wire numbering: constant one, then public values in creation order, then private values in creation order *)
Definition wire_of (npub : Z) (k : var) : Z := if 0 <=? k then k else npub - k.
Definition enc_term (p npub : Z) (kv : var * Z) : list Z := le 4 (wire_of npub (fst kv)) ++ le 32 (snd kv mod p).
Definition enc_lc (p npub : Z) (l : lc) : list Z := le 4 (Z.of_nat (length l)) ++ flat_map (enc_term p npub) l.
Definition enc_con (p npub : Z) (c : lc * lc * lc) : list Z :=
  enc_lc p npub (fst (fst c)) ++ enc_lc p npub (snd (fst c)) ++ enc_lc p npub (snd c).
Definition nterms (c : lc * lc * lc) : Z := Z.of_nat (length (fst (fst c)) + length (snd (fst c)) + length (snd c)).
Definition encode_r1cs (p : Z) (npub npriv : Z) (cons : list (lc * lc * lc)) : list Z :=
  let nvars := npriv + npub + 1 in
  let nlcs := fold_right (fun c acc => nterms c + acc) 0 cons in
  ascii_r1cs ++ le 4 1 ++ le 4 3
  ++ le 4 1 ++ le 8 64 ++ le 4 32 ++ le 32 p ++ le 4 nvars ++ le 4 npub ++ le 4 0 ++ le 4 0 ++ le 8 0 ++ le 4 (Z.of_nat (length cons))
  ++ le 4 2 ++ le 8 (12 * Z.of_nat (length cons) + 36 * nlcs)
  ++ flat_map (enc_con p npub) cons
  ++ le 4 3 ++ le 8 (8 * nvars) ++ flat_map (fun _ => le 8 0) (seq 0 (Z.to_nat nvars)).

Record r1cs := { r_prime : Z; r_nwires : Z; r_npubout : Z; r_npubin : Z; r_nprvin : Z; r_nlabels : Z;
                 r_cons : list (list (Z * Z) * list (Z * Z) * list (Z * Z)); r_map : list Z }.
Definition pterm (fs : nat) (prime nw : Z) : P (Z * Z) :=
  w <-- uN 4 ;; c <-- uN fs ;; _ <-- pguard ((c <? prime) && (w <? nw)) ;; pret (w, c).
Definition plc (fs : nat) (prime nw : Z) : P (list (Z * Z)) := n <-- uN 4 ;; rep (Z.to_nat n) (pterm fs prime nw).
Definition pcon (fs : nat) (prime nw : Z) : P (list (Z * Z) * list (Z * Z) * list (Z * Z)) :=
  a <-- plc fs prime nw ;; b <-- plc fs prime nw ;; c <-- plc fs prime nw ;; pret (a, b, c).
Definition decode_r1cs : P r1cs :=
  m <-- take 4 ;; _ <-- pguard (leqb m ascii_r1cs) ;;
  ver <-- uN 4 ;; _ <-- pguard (ver =? 1) ;;
  nsec <-- uN 4 ;; _ <-- pguard (nsec =? 3) ;;
  s1 <-- uN 4 ;; _ <-- pguard (s1 =? 1) ;;
  l1 <-- uN 8 ;; fs <-- uN 4 ;; _ <-- pguard (l1 =? 4 + fs + 4 + 4 + 4 + 4 + 8 + 4) ;;
  prime <-- uN (Z.to_nat fs) ;;
  nw <-- uN 4 ;; npo <-- uN 4 ;; npi <-- uN 4 ;; nvi <-- uN 4 ;; nlab <-- uN 8 ;; ncon <-- uN 4 ;;
  s2 <-- uN 4 ;; _ <-- pguard (s2 =? 2) ;;
  l2 <-- uN 8 ;;
  cons <-- section (Z.to_nat l2) (rep (Z.to_nat ncon) (pcon (Z.to_nat fs) prime nw)) ;;
  s3 <-- uN 4 ;; _ <-- pguard (s3 =? 3) ;;
  l3 <-- uN 8 ;; _ <-- pguard (l3 =? 8 * nw) ;;
  wmap <-- rep (Z.to_nat nw) (uN 8) ;;
  _ <-- eof ;;
  pret {| r_prime := prime; r_nwires := nw; r_npubout := npo; r_npubin := npi; r_nprvin := nvi; r_nlabels := nlab; r_cons := cons; r_map := wmap |}.

(* what the decoded constraint system must be: same terms in the same order, wires renumbered, coefficients reduced *)
Definition canon_lc (p npub : Z) (l : lc) : list (Z * Z) := map (fun kv => (wire_of npub (fst kv), snd kv mod p)) l.
Definition canon_con (p npub : Z) (c : lc * lc * lc) := (canon_lc p npub (fst (fst c)), canon_lc p npub (snd (fst c)), canon_lc p npub (snd c)).
