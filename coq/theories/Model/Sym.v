(* Stage 2 of the model: value expressions with Python int semantics, circuit-generator
   commands, and the interpreter that turns a command list + concrete inputs into a trace. *)
From Coq Require Import ZArith List Bool Zpow_facts Znumtheory.
From PySnark.Base Require Import FieldZ.
From PySnark.Model Require Import Lc.
Import ListNotations.
Open Scope Z_scope.

Inductive valexp :=
| VIn (i : nat)                       (* i-th program input *)
| VConst (z : Z)
| VWit (v : var)                      (* value of an already allocated variable *)
| VAdd (a b : valexp) | VSub (a b : valexp) | VMul (a b : valexp)
| VDiv (a b : valexp) | VMod (a b : valexp)            (* Python // and % (floor) *)
| VLand (a b : valexp) | VLor (a b : valexp) | VLxor (a b : valexp)
| VShl (a b : valexp) | VShr (a b : valexp)
| VInv (a : valexp)                   (* backend.fieldinverse *)
| VModP (a : valexp)                  (* a % backend.get_modulus() *)
| VLin (l : lc)                       (* sum of coeff * (value of variable): the integer a wire evaluates to *)
| VIte (c : bexp) (a b : valexp)
| VB2Z (b : bexp)
with bexp :=
| BTrue | BFalse | BIgn0 (* the initial error-suppression flag of the run (an input) *) | BNot (b : bexp) | BAnd (a b : bexp) | BOr (a b : bexp)
| BEq (a b : valexp) | BLt (a b : valexp) | BLe (a b : valexp)
| BBitLenLe (a : valexp) (k : Z).     (* a.bit_length() <= k *)

Inductive kind := Pub | Priv.
Inductive exn := AssertionError | ValueError | ZeroDivisionError | TypeError | RuntimeError
               | NotImplementedError | IndexError | AttributeError | StopIteration_
               | KeyboardInterrupt_ | SystemExit_     (* BaseExceptions that are not Exceptions (raised by the program itself: SRaise) *)
               | ModelError.      (* raised by the model itself, never by pysnark: a wire mentioning an unallocated variable *)

Definition bit_length (v : Z) : Z := if v =? 0 then 0 else Z.log2 (Z.abs v) + 1.

(* field inverse: candidate from a fuelled extended Euclid, accepted only if it is an inverse,
   otherwise pow(x, p-2, p) as pysnark.gmpy.invert computes it *)
Fixpoint egcd (fuel : nat) (r0 r1 s0 s1 : Z) : Z :=
  match fuel with
  | O => s0
  | S f => if r1 =? 0 then s0 else let q := r0 / r1 in egcd f r1 (r0 - q * r1) s1 (s0 - q * s1)
  end.
Definition finv (p x : Z) : Z :=
  let xm := x mod p in
  let y := (egcd 800 p xm 0 1) mod p in
  if (xm * y) mod p =? 1 then y else Zpow_mod x (p - 2) p.

Record store := { pubs : list Z; privs : list Z }.
Definition wval (s : store) (v : var) : Z :=
  if v =? 0 then 1 else
  if 0 <? v then nth (Z.to_nat (v - 1)) (pubs s) 0 else nth (Z.to_nat (- v - 1)) (privs s) 0.

Section Eval.
Variable p : Z.
Variable ins : list Z.
Variable ign0 : bool.

Fixpoint veval (s : store) (e : valexp) : Z :=
  match e with
  | VIn i => nth i ins 0 | VConst z => z | VWit v => wval s v
  | VAdd a b => veval s a + veval s b | VSub a b => veval s a - veval s b
  | VMul a b => veval s a * veval s b
  | VDiv a b => veval s a / veval s b | VMod a b => veval s a mod veval s b
  | VLand a b => Z.land (veval s a) (veval s b)
  | VLor a b => Z.lor (veval s a) (veval s b)
  | VLxor a b => Z.lxor (veval s a) (veval s b)
  | VShl a b => Z.shiftl (veval s a) (veval s b) | VShr a b => Z.shiftr (veval s a) (veval s b)
  | VInv a => finv p (veval s a)
  | VModP a => veval s a mod p
  | VLin l => eval (wval s) l
  | VIte c a b => if beval s c then veval s a else veval s b
  | VB2Z b => if beval s b then 1 else 0
  end
with beval (s : store) (b : bexp) : bool :=
  match b with
  | BTrue => true | BFalse => false | BIgn0 => ign0 | BNot b => negb (beval s b)
  | BAnd a b => beval s a && beval s b | BOr a b => beval s a || beval s b
  | BEq a b => veval s a =? veval s b | BLt a b => veval s a <? veval s b
  | BLe a b => veval s a <=? veval s b
  | BBitLenLe a k => bit_length (veval s a) <=? k
  end.

End Eval.

Section WithP.
Variable p : Z.

(* an object is *coherent* when its Python-visible value is congruent, modulo the field prime, to its wire
   evaluated on the witness -- whatever the inputs, the initial error flag and the witness store *)
(* what the theorems assume of the modulus: it is prime and [finv] inverts (discharged for every prime in
   Proofs/FieldOk.v via Fermat; kept as a hypothesis here so that the model does not load mathcomp) *)
Definition field_ok : Prop := prime p /\ forall x, x mod p <> 0 -> (x * finv p x) mod p = 1.
Definition coherent (v : valexp) (l : lc) : Prop :=
  field_ok -> forall ins ig s, feq p (veval p ins ig s v) (eval (wval s) l).
Definition Good (v : valexp) (l : lc) : Prop := wf l /\ coherent v l.

(* symbolic LinComb object: Python-visible value, backend wire, object identity (0 = anonymous), and the
   proof that value and wire are coherent: every LinComb the generator can build is coherent by typing (C04) *)
Record slc := { sval : valexp; wire : lc; oid : Z; good : Good sval wire }.

(* the runtime globals (guard, _ignore_errors, LinComb.ONE) *)
Record gtriple := { g_guard : option slc; g_ignore : bexp; g_one : slc }.

Inductive cmd :=
| CAlloc (k : kind) (h : valexp)
| CEmit (a b c : slc)                          (* add_constraint_unsafe: a * b = c *)
| CRaiseIf (c : bexp) (e : exn) (unw : gtriple)  (* unw: globals once the exception has propagated to top level *)
| COut (tag : Z) (v : valexp) (l : lc)         (* a plain result observed by the harness *)
| COutLC (tag : Z) (x : slc).                  (* a LinComb / LinCombBool / LinCombFxp result *)

(* every wire handed to the backend or observed mentions allocated variables only (np public, nw private so far) *)
Definition var_okb (np nw : Z) (v : var) : bool :=
  (v =? 0) || ((0 <? v) && (v <=? np)) || ((0 <? - v) && (- v <=? nw)).
Definition lc_okb (np nw : Z) (l : lc) : bool := forallb (fun vc => var_okb np nw (fst vc)) l.
Definition cmd_scoped (np nw : Z) (c : cmd) : bool :=
  match c with
  | CEmit a b y => lc_okb np nw (wire a) && lc_okb np nw (wire b) && lc_okb np nw (wire y)
  | COutLC _ x => lc_okb np nw (wire x)
  | _ => true
  end.

(* ... and so does every VALUE expression the generator evaluates (witness hints, raise conditions, observed values) *)
Fixpoint vscopedb (np nw : Z) (e : valexp) : bool :=
  match e with
  | VIn _ | VConst _ => true
  | VWit v => var_okb np nw v
  | VAdd a b | VSub a b | VMul a b | VDiv a b | VMod a b | VLand a b | VLor a b | VLxor a b | VShl a b | VShr a b =>
      vscopedb np nw a && vscopedb np nw b
  | VInv a | VModP a => vscopedb np nw a
  | VLin l => lc_okb np nw l
  | VIte c a b => bscopedb np nw c && vscopedb np nw a && vscopedb np nw b
  | VB2Z b => bscopedb np nw b
  end
with bscopedb (np nw : Z) (b : bexp) : bool :=
  match b with
  | BTrue | BFalse | BIgn0 => true
  | BNot a => bscopedb np nw a
  | BAnd a b | BOr a b => bscopedb np nw a && bscopedb np nw b
  | BEq a b | BLt a b | BLe a b => vscopedb np nw a && vscopedb np nw b
  | BBitLenLe a _ => vscopedb np nw a
  end.
Definition slc_scoped (np nw : Z) (x : slc) : bool := vscopedb np nw (sval x) && lc_okb np nw (wire x).
Definition triple_scoped (np nw : Z) (t : gtriple) : bool :=
  match g_guard t with Some g => slc_scoped np nw g | None => true end && bscopedb np nw (g_ignore t) && slc_scoped np nw (g_one t).
(* the complete scope check of one command *)
Definition cmd_vscoped (np nw : Z) (c : cmd) : bool :=
  match c with
  | CAlloc _ h => vscopedb np nw h
  | CEmit a b y => slc_scoped np nw a && slc_scoped np nw b && slc_scoped np nw y
  | CRaiseIf b _ _ => bscopedb np nw b
  | COut _ v l => vscopedb np nw v && lc_okb np nw l
  | COutLC _ x => slc_scoped np nw x
  end.

Section Interp.
Variable ins : list Z.
Variable ign0 : bool.
Notation veval := (veval p ins ign0).
Notation beval := (beval p ins ign0).

(* what the harness observes of the globals: guard wire (if any), ignore flag, ONE wire *)
Definition gobs := (option lc * bool * lc)%type.
Definition obs_triple (s : store) (g : gtriple) : gobs :=
  (match g_guard g with Some x => Some (wire x) | None => None end, beval s (g_ignore g), wire (g_one g)).

Record trace := {
  st : store;
  kinds : list kind;                         (* allocation order *)
  cons : list (lc * lc * lc);                (* emission order *)
  outs : list (Z * Z * lc);                  (* (tag, value, wire) *)
  raised : option (exn * gobs) }.

(* tags 1..3 are reserved for LinComb-typed results (COutLC); a plain result can never carry them *)
Definition plain_tag (tag : Z) : Z := if (1 <=? tag) && (tag <=? 3) then tag + 100 else tag.
Definition step (t : trace) (c : cmd) : trace :=
  match raised t with Some _ => t | None =>
  match c with
  | CAlloc Pub h => {| st := {| pubs := pubs (st t) ++ [veval (st t) h]; privs := privs (st t) |};
                       kinds := kinds t ++ [Pub]; cons := cons t; outs := outs t; raised := None |}
  | CAlloc Priv h => {| st := {| pubs := pubs (st t); privs := privs (st t) ++ [veval (st t) h] |};
                       kinds := kinds t ++ [Priv]; cons := cons t; outs := outs t; raised := None |}
  | CEmit a b c => {| st := st t; kinds := kinds t; cons := cons t ++ [(wire a, wire b, wire c)]; outs := outs t; raised := None |}
  | CRaiseIf b e u => if beval (st t) b
                      then {| st := st t; kinds := kinds t; cons := cons t; outs := outs t; raised := Some (e, obs_triple (st t) u) |}
                      else t
  | COut tag v l => {| st := st t; kinds := kinds t; cons := cons t; outs := outs t ++ [(plain_tag tag, veval (st t) v, l)]; raised := None |}
  | COutLC tag x => {| st := st t; kinds := kinds t; cons := cons t; outs := outs t ++ [(tag, veval (st t) (sval x), wire x)]; raised := None |}
  end end.
Definition init : trace := {| st := {| pubs := []; privs := [] |}; kinds := []; cons := []; outs := []; raised := None |}.
Definition interp (cs : list cmd) : trace := fold_left step cs init.
End Interp.
End WithP.
Arguments sval {p} _. Arguments wire {p} _. Arguments oid {p} _. Arguments good {p} _.
Arguments g_guard {p} _. Arguments g_ignore {p} _. Arguments g_one {p} _.
Arguments cmd_scoped {p} _ _ _. Arguments slc_scoped {p} _ _ _. Arguments triple_scoped {p} _ _ _. Arguments cmd_vscoped {p} _ _ _.
Arguments CAlloc {p} _ _. Arguments CEmit {p} _ _ _. Arguments CRaiseIf {p} _ _ _. Arguments COut {p} _ _ _. Arguments COutLC {p} _ _.

(* ---- digest of a trace: what the correspondence compares (see harness/impl/digest.py) ----
   order-independent inside a linear combination, zero coefficients dropped, coefficients mod p,
   multiplicands unordered; everything else in order *)
Definition hq : Z := 2305843009213693951.      (* 2^61 - 1 *)
Definition hr (v : var) : Z := let t := v + 1048576 in ((((t * t) mod hq) * t) mod hq + 12345 * ((t * t) mod hq) + 6789 * t + 1) mod hq.
Definition hlc (p : Z) (l : lc) : Z := fold_left (fun acc vc => (acc + (snd vc mod p) * hr (fst vc)) mod hq) l 0.
Definition hmix (h x : Z) : Z := (h * 1000003 + (x mod hq)) mod hq.
Definition hcon (p : Z) (c : lc * lc * lc) : Z :=
  let '(a, b, y) := c in
  let ha := hlc p a in let hb := hlc p b in
  hmix (hmix (hmix 17 ((ha + hb) mod hq)) ((ha * hb) mod hq)) (hlc p y).
Definition exn_code (e : exn) : Z :=
  match e with AssertionError => 1 | ValueError => 2 | ZeroDivisionError => 3 | TypeError => 4 | RuntimeError => 5
             | NotImplementedError => 6 | IndexError => 7 | AttributeError => 8 | StopIteration_ => 9 | ModelError => 10
             | KeyboardInterrupt_ => 11 | SystemExit_ => 12 end.
Definition hgobs (p : Z) (g : gobs) : Z :=
  let '(gd, ig, one) := g in
  hmix (hmix (hmix 23 (match gd with Some l => 1 + hlc p l | None => 0 end)) (if ig then 1 else 0)) (hlc p one).

(* four separate digests so that a mismatch can be localised: variables, constraints, results, exception+globals *)
Definition digest_vars (p : Z) (t : trace) : Z :=
  let fix go (ks : list kind) (pu pr : list Z) (h : Z) : Z :=
    match ks with
    | [] => h
    | Pub :: ks' => match pu with v :: pu' => go ks' pu' pr (hmix (hmix h 1) (v mod p)) | [] => hmix h 99 end
    | Priv :: ks' => match pr with v :: pr' => go ks' pu pr' (hmix (hmix h 2) (v mod p)) | [] => hmix h 98 end
    end in go (kinds t) (pubs (st t)) (privs (st t)) 7.
Definition digest_cons (p : Z) (t : trace) : Z := fold_left (fun h c => hmix h (hcon p c)) (cons t) 11.
Definition digest_outs (p : Z) (t : trace) : Z :=
  fold_left (fun h o => let '(tag, v, l) := o in hmix (hmix (hmix h tag) v) (hlc p l)) (outs t) 13.
Definition digest_exn (p : Z) (t : trace) : Z :=
  match raised t with None => 0 | Some (e, g) => hmix (exn_code e) (hgobs p g) end.
