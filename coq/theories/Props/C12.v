(* C12 — qaptools equation / wire / I-O files are consistent and split faithfully.
   PARTIAL.  The external qaptools binaries are absent (failing stand-ins on QAPTOOLS_BIN), so prove() stops after
   qapsplit.  Proved: the logical core of qapsplit (Model/Qap.v), for every equation file and every sequence of calls:
     - regrouping is a partition: a line belongs to call c iff it is in the (sorted) collection of c, nothing is lost;
     - if the split succeeds, EVERY call of a function has exactly the equation list written to that function's file
       (all calls of one function are identical); under the TRUSTED hypothesis that the digest (md5 prefix) is
       injective on the lists at hand -- which is also what "different signature whenever the equations differ" means.
   The linear-combination class Sig is covered by C13.  Everything about the concrete files (every equation satisfied
   by the wire / I-O values mod p, each public value tied to its wire, the per-function files equal to the
   contextualised sorted lines of every call, glue blocks pairing all arguments and results with equal values, the
   inconsistency of a value-dependent function reported) is decided on the real code by the harness. *)
From Coq Require Import ZArith List Permutation.
From PySnark.Model Require Import Qap.
From PySnark.Proofs Require Import QapProofs.
Import ListNotations.
Open Scope Z_scope.

Theorem C12_split_is_a_partition : forall (line : Type) (sortl : list line -> list line),
  (forall l, Permutation (sortl l) l) ->
  forall (f : eqfile line) call x, In (call, x) f <-> In x (qap_of line sortl f call).
Proof. intros line sortl H. exact (qap_has_every_line line sortl H). Qed.
Theorem C12_calls_of_a_function_are_identical : forall (line : Type) (sortl : list line -> list line) (digest : list line -> Z),
  (forall a b, digest a = digest b -> a = b) ->
  forall (f : eqfile line) calls out call fn,
  split line sortl digest f calls [] = Some out -> In (call, fn) calls -> exists q, In (fn, q) out /\ q = qap_of line sortl f call.
Proof. intros line sortl digest H. exact (split_faithful line sortl digest H). Qed.
Print Assumptions C12_split_is_a_partition.
Print Assumptions C12_calls_of_a_function_are_identical.
