(* C11 — zkinterface files encode the traced circuit; the verifier file has no witness.
   PARTIAL by necessity: the `flatbuffers` package is absent from this sandbox and cannot be installed; the backend is
   run against /verif/stubs/flatbuffers (a re-implementation of the Builder calls it uses).  What is proved is the
   message-level model (Model/Zkif.v, compared on every run with the messages an independent FlatBuffers reader decodes
   from the real backend's output, for the three field configurations):
     - the circuit-only file contains no Witness message and is the same whatever the private VALUES are;
     - ids: instance variables 1..n, witness n+1..n+m, free id n+m+1, field maximum p-1, canonical values;
     - the decoded assignment satisfies a decoded constraint iff the traced assignment satisfies the traced one. *)
From Coq Require Import ZArith List Lia.
From PySnark.Base Require Import FieldZ.
From PySnark.Model Require Import Lc Sym Zkif.
From PySnark.Proofs Require Import ZkifProofs.
Import ListNotations.
Open Scope Z_scope.

Theorem C11_circuit_file_has_no_witness : forall p pubs privs cons,
  Forall (fun m => match m with ZWitness _ _ => False | _ => True end) (circuit_file p pubs privs cons).
Proof. intros. repeat constructor. Qed.
Theorem C11_circuit_file_independent_of_private_values : forall p pubs privs privs' cons,
  length privs = length privs' -> circuit_file p pubs privs cons = circuit_file p pubs privs' cons.
Proof. intros p pubs privs privs' cons H. unfold circuit_file. rewrite H. reflexivity. Qed.
Theorem C11_header : forall p pubs privs cons,
  nth 0 (computation_file p pubs privs cons) (ZConstraints []) =
  ZHeader (zids 1 (length pubs)) (map (fun v => v mod p) pubs) (Z.of_nat (length pubs + length privs) + 1) (p - 1).
Proof. reflexivity. Qed.
Theorem C11_witness_assigns_exactly_the_private_variables : forall p pubs privs cons,
  nth 1 (computation_file p pubs privs cons) (ZConstraints []) =
  ZWitness (zids (Z.of_nat (length pubs) + 1) (length privs)) (map (fun v => v mod p) privs).
Proof. reflexivity. Qed.
Theorem C11_values_canonical : forall p v, 0 < p -> 0 <= v mod p < p.
Proof. intros. apply Z.mod_pos_bound. assumption. Qed.
Theorem C11_satisfaction_preserved : forall p pubs privs c, 0 < p ->
  Forall (fun kv => allocated pubs privs (fst kv)) (fst (fst c)) -> Forall (fun kv => allocated pubs privs (fst kv)) (snd (fst c)) ->
  Forall (fun kv => allocated pubs privs (fst kv)) (snd c) ->
  let w := wval {| Sym.pubs := pubs; Sym.privs := privs |} in
  let zc := zk_con p (Z.of_nat (length pubs)) c in
  (feq p (zeval (zassign p pubs privs) (fst (fst zc)) * zeval (zassign p pubs privs) (snd (fst zc))) (zeval (zassign p pubs privs) (snd zc)))
  <-> (feq p (eval w (fst (fst c)) * eval w (snd (fst c))) (eval w (snd c))).
Proof. intros p pubs privs c Hp. exact (zk_con_sat p Hp pubs privs c). Qed.

Example C11_example :
  computation_file 13 [5; -1] [3] [([(-1, 1)], [(1, 2)], [(0, 14); (2, -1)])] =
  [ZHeader [1; 2] [5; 12] 4 12; ZWitness [3] [3]; ZConstraints [([(3, 1)], [(1, 2)], [(0, 1); (2, 12)])]].
Proof. reflexivity. Qed.

Print Assumptions C11_circuit_file_independent_of_private_values.
Print Assumptions C11_satisfaction_preserved.
