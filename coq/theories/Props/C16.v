(* C16 — bit decomposition and packing round-trip at the requested width.
   PARTIAL.  Proved about the model, for every prime p, every width k (independent of the global bitlength):
     - honest side (Proofs/Values.v): to_bits(k), whenever it does not raise, returns the Python bits (v >> i) & 1 of the value,
       and for 0 <= v < 2^k these recompose to v (Base/Bits.v: recompose_exact);
     - adversarial side (Proofs/AdvGadgets.v): ANY assignment satisfying the constraints that to_bits(k) / assert_positive(k)
       emit has k boolean wires whose weighted sum is the operand, and the operand is congruent to some 0 <= v < 2^k:
       values outside the range cannot be proven, and the width argument is the width enforced.
     - packing (PackIntMod, plain values): for every modulus m and every 0 <= z < m, pack gives the bitlen(m) Python
       bits of z and unpack of those bits gives z back, allocating nothing and emitting nothing (C16_pack_unpack_intmod;
       Proofs/PackCore.v, which also proves the monad law of [run]).  (Modulus 1, a zero-width field,
       used to raise IndexError: found while proving this theorem, fixed in /repo by 95c6e1c.)
     - packing of a SECRET integer (Proofs/PackValues.v): pack is the decomposition into bitlen(m-1) boolean witnesses, unpack their
       recomposition (a pure linear combination) asserted below m; whenever the round trip does not raise, the unpacked object
       carries the packed value (C16_pack_unpack_secret; with the adversarial theorems above: the bits are forced).
     - EVERY schema (Proofs/PackSchema.v): for every schema built from booleans, bounded integers, non-empty lists and repetitions
       (any nesting) and every plain value fitting it, pack gives exactly bitlen(schema) bits and unpack gives the value back,
       allocating nothing and emitting nothing (C16_pack_unpack_every_schema; by induction over schemas with the offsets
       arithmetic of PackList / PackRepeat).
   Not proved in Coq: structured schemas with SECRET leaves (the leaf case is C16_pack_unpack_secret); they are in the model
   (Prog.pack_v / unpack_v), tied to the code by the correspondence, and decided by round-trip runs over generated schemas
   and by the witness-space search at widths different from the global bitlength. *)
From Coq Require Import ZArith List Bool Lia Znumtheory.
From PySnark.Base Require Import FieldZ Bits.
From PySnark.Model Require Import Lc Sym Good Gadgets.
From PySnark.Model Require Import Api Prog.
From PySnark.Proofs Require Import Meta Sound Wp WpBase GadgetsOK Values Adv AdvGadgets PackCore PackValues PackSchema.
Import ListNotations.
Open Scope Z_scope.

(* the honest bits recompose to the value, for every width *)
Theorem C16_bits_recompose : forall v k, 0 <= v < 2 ^ Z.of_nat k -> wsum (map (fun j => Bits.pybit v j) (seq 0 k)) 0 = v.
Proof. exact wsum_pybit_exact. Qed.
Theorem C16_honest_bits : forall (p : Z) ins ig (s : @Gadgets.gst p) sg, WpBase.Inv ins ig s sg -> forall x k,
  Values.returns ins ig (to_bits x k) s sg
    (fun bs sg' => map (fun b => Sym.veval p ins ig sg' (sval b)) bs = map (fun j => Bits.pybit (Sym.veval p ins ig sg (sval x)) j) (seq 0 k)).
Proof. intros p ins ig s sg I. exact (to_bits_value ins ig s sg I). Qed.

Section C16_model.
Variable p : Z.
Hypothesis Hp : prime p.
Variable w : var -> Z.
Hypothesis W0 : w 0 = 1.
Variable s : @Gadgets.gst p.
Hypothesis G : AdvGadgets.Gok w s.     (* no active guard, or the active guard wire evaluates to 1 under w (a true guard is transparent) *)
Notation "a == b" := (feq p a b) (at level 70).
Notation ew := (AdvGadgets.ew w).
Notation sat cs := (Forall (holds (p:=p) w) (cons_of cs)).
Theorem C16_width_enforced : forall x k bs s' cs, run (to_bits x k) s = (inl bs, s', cs) -> sat cs ->
  length bs = k /\ Forall (fun b => Sound.isbit p (ew b)) bs /\ ew x == wsum (map ew bs) 0 /\ exists v, 0 <= v < 2 ^ Z.of_nat k /\ ew x == v.
Proof. exact (to_bits_forced Hp w W0 s G). Qed.
Theorem C16_assert_positive_width : forall x k u s' cs, run (assert_positive x k) s = (inl u, s', cs) -> sat cs -> exists v, 0 <= v < 2 ^ Z.of_nat k /\ ew x == v.
Proof. exact (assert_positive_forced Hp w W0 s G). Qed.
(* two satisfying assignments of a decomposition of the same value have the same bits (2^k <= p) *)
Theorem C16_bits_unique : forall k bs cs x, 2 ^ Z.of_nat k <= p -> length bs = k -> length cs = k ->
  Forall (fun b => b * (1 - b) == 0) bs -> Forall (fun b => b * (1 - b) == 0) cs -> x == wsum bs 0 -> x == wsum cs 0 -> Forall2 (feq p) bs cs.
Proof. exact (to_bits_sound p Hp). Qed.
End C16_model.

Theorem C16_pack_unpack_intmod : forall (p : Z) (c : cfg) m z (s : @Gadgets.gst p), 0 <= z < m ->
  run (pack_v (KIntMod m) (PInt z)) s = (inl (PList (py_bits z (bitlen_of m))), s, []) /\
  run (unpack_v c (KIntMod m) (py_bits z (bitlen_of m)) 0) s = (inl (PInt z), s, []).
Proof. intros p c. exact (pack_unpack_intmod c). Qed.

(* out-of-range plain values are rejected: for every modulus, every plain integer outside [0, m), in every state, pack raises
   ValueError in the unchanged state; the only trace entry is the unconditional raise itself: nothing is allocated, no constraint
   emitted (with C16_pack_unpack_intmod: pack of a plain integer succeeds iff 0 <= z < m) *)
Theorem C16_pack_rejects_out_of_range : forall (p : Z) m z (s : @Gadgets.gst p), z < 0 \/ m <= z ->
  run (pack_v (KIntMod m) (PInt z)) s = (inr ValueError, s, [CRaiseIf BTrue ValueError (unw_triple s)]).
Proof. intros p m z s H. cbn [pack_v]. replace ((z <? 0) || (m <=? z)) with true by lia. reflexivity. Qed.
Theorem C16_pack_plain_succeeds_iff_in_range : forall (p : Z) m z (s : @Gadgets.gst p),
  (exists r, run (pack_v (KIntMod m) (PInt z)) s = (inl r, s, [])) <-> 0 <= z < m.
Proof.
  intros p m z s. split.
  - intros [r Hr]. destruct (Z_lt_dec z 0) as [L|L]; [rewrite (C16_pack_rejects_out_of_range p m z s (or_introl L)) in Hr; discriminate|].
    destruct (Z_le_dec m z) as [U|U]; [rewrite (C16_pack_rejects_out_of_range p m z s (or_intror U)) in Hr; discriminate|]. lia.
  - intros Hz. eexists. cbn [pack_v]. replace ((z <? 0) || (m <=? z)) with false by lia. reflexivity.
Qed.
Example C16_reject_example : forall (p : Z) (s : @Gadgets.gst p),
  run (pack_v (KIntMod 10) (PInt 10)) s = (inr ValueError, s, [CRaiseIf BTrue ValueError (unw_triple s)]) /\
  run (pack_v (KIntMod 10) (PInt (-1))) s = (inr ValueError, s, [CRaiseIf BTrue ValueError (unw_triple s)]) /\
  exists r, run (pack_v (KIntMod 10) (PInt 9)) s = (inl r, s, []).
Proof. intros p s. split; [apply C16_pack_rejects_out_of_range; lia|]. split; [apply C16_pack_rejects_out_of_range; lia|].
  apply (proj2 (C16_pack_plain_succeeds_iff_in_range p 10 9 s)). lia. Qed.

(* the round trip of a secret integer through PackIntMod(m): for every modulus with a non-empty field, every secret value, every
   generator state satisfying the invariant.  [wp ... Q] for every Q implied by the value fact = every run of the round trip that
   does not raise ends with that fact (Wp.wp_sound). *)
Theorem C16_pack_unpack_secret : forall (p : Z) ins ig (c : cfg) m (x : Sym.slc p) (s : @Gadgets.gst p) sg (Q : Api.pyval p -> @Gadgets.gst p -> store -> Prop),
  WpBase.Inv ins ig s sg -> (0 < bitlen_of m)%nat ->
  (forall q s' sg', WpBase.Inv ins ig s' sg' -> ext sg sg' ->
     Sym.veval p ins ig sg' (sval q) = Sym.veval p ins ig sg (sval x) mod 2 ^ Z.of_nat (bitlen_of m) -> Q (PLC q) s' sg') ->
  Wp.wp ins ig (pk <- pack_v (KIntMod m) (PLC x) ;; match pk with PList bits => unpack_v c (KIntMod m) bits 0 | _ => static_raise TypeError end) s sg Q.
Proof. intros p ins ig c m x s sg Q. exact (pack_unpack_secret ins ig c m x s sg Q). Qed.

(* every schema, every plain value fitting it *)
Theorem C16_pack_unpack_every_schema : forall (p : Z) (c : cfg) (k : pschema) (v : Api.pyval p) (s : @Gadgets.gst p), fits k v ->
  exists bits, run (pack_v k v) s = (inl (PList bits), s, []) /\ length bits = sch_bitlen k /\
               run (unpack_v c k bits 0) s = (inl v, s, []).
Proof. intros p c. exact (pack_unpack_schema c). Qed.
(* non-vacuity: a nested schema and a value fitting it *)
Example C16_schema_example : forall p : Z,
  fits (p:=p) (KList [KBool; KIntMod 10; KRepeat (KIntMod 5) 2; KList [KIntMod 1; KBool]])
       (PList [PInt 1; PInt 7; PList [PInt 3; PInt 4]; PList [PInt 0; PInt 0]]).
Proof.
  intros p. cbn [fits]. eexists. split; [reflexivity|]. split; [discriminate|]. repeat split; try (right; reflexivity); try (left; reflexivity).
  - eexists. split; [reflexivity|lia].
  - eexists. split; [reflexivity|]. split; [reflexivity|]. split; [lia|]. repeat split; eexists; (split; [reflexivity|lia]).
  - eexists. split; [reflexivity|]. split; [discriminate|]. repeat split; [eexists; split; [reflexivity|lia]|left; reflexivity].
Qed.

Print Assumptions C16_pack_unpack_intmod.
Print Assumptions C16_pack_unpack_every_schema.
Print Assumptions C16_pack_unpack_secret.
Print Assumptions C16_bits_recompose.
Print Assumptions C16_honest_bits.
Print Assumptions C16_width_enforced.
Print Assumptions C16_assert_positive_width.
Print Assumptions C16_pack_rejects_out_of_range.
Print Assumptions C16_pack_plain_succeeds_iff_in_range.
