(* C06 — the constraint system does not depend on the values processed.
   [model_run pr ins ign0] = [interp ins ign0 (gen_prog pr)]: the generator never sees the input vector nor
   the initial error-suppression flag, and the shape of a completing interpretation is a function of the
   command list alone (Proofs/Meta.v).  What ties this to the code is the trace correspondence: the real
   pysnark's trace equals interp (gen_prog pr) on every sampled input, which it cannot if its circuit shape
   depends on a value. *)
From Coq Require Import ZArith List.
From PySnark.Model Require Import Lc Sym Gadgets Api Prog.
From PySnark.Proofs Require Import Meta.
Import ListNotations.
Open Scope Z_scope.

(* same number, kind and order of variables; same constraints with the same coefficients, in the same order;
   results with the same wire expressions -- for any two input vectors and either setting of error checking
   (secret conditions are inputs, so this covers both outcomes of every secret condition) *)
Theorem C06_oblivious : forall (p : Z) (c : cfg) (pr : list stmt) (ins1 ins2 : list Z) (ig1 ig2 : bool),
  raised (model_run (p:=p) c pr ins1 ig1) = None ->
  raised (model_run (p:=p) c pr ins2 ig2) = None ->
  shape_of (model_run (p:=p) c pr ins1 ig1) = shape_of (model_run (p:=p) c pr ins2 ig2).
Proof. intros p c pr ins1 ins2 ig1 ig2. unfold model_run. apply interp_oblivious. Qed.

(* non-vacuity: a program with a comparison, a guarded region and a division, run on a valid input and, with
   error checking off, on an invalid one: both complete, the witnesses differ, the shapes coincide *)
Definition ex_prog : list stmt :=
  [SInput 0 IPriv 0; SInput 1 IPriv 1; SBin 2 OLt 0 1; SGuarded 2 [SBin 3 OTrueDiv 0 1]; SMeth 4 (MAssertPositive (Some 3%nat)) 0 []].
Definition ex_cfg : cfg := {| bitlength := 4%nat; resolution := 2 |}.
Example C06_example :
  let t1 := model_run (p:=65537) ex_cfg ex_prog [0; 6] false in
  let t2 := model_run (p:=65537) ex_cfg ex_prog [12; 5] true in
  raised t1 = None /\ raised t2 = None /\ privs (st t1) <> privs (st t2) /\ length (cons t1) = 12%nat /\ shape_of t1 = shape_of t2.
Proof. vm_compute. repeat split; try reflexivity. discriminate. Qed.

Print Assumptions C06_oblivious.
