(* C17 — a @snark function exposes exactly its arguments and results as public values.
   PARTIAL.  Proved about the model of runtime.snark (Prog.SSnark: conversion passes over the leaves of the argument / result
   structures):
     - arguments: the integer arguments, in the order of the flattened argument structures, become public inputs -- the
       conversion pass allocates exactly one public variable per leaf, in order, carrying the argument's value, and nothing
       else (no private variable, no constraint) (C17_arguments_become_public_inputs_in_order);
     - results: val() allocates one public output and ties it to the result wire by a constraint that every satisfying
       assignment must respect (C17_output_is_tied_to_its_wire).
     - "exactly": outside guarded regions the result pass allocates exactly one public output per secret-integer leaf of the
       returned structure, exactly one constraint each (the tie), no private variable, and nothing for the other leaves
       (C17_results_become_public_outputs).
   The float pass (known finding F18: ints first, then floats), nested dict structures, keyword arguments, the returned
   plain values and sequences of calls sharing argument objects / result wires are decided on the real code: trace
   correspondence of the @snark model, an oracle on the ordered public vector and the returned values, and direct
   call-sequence scenarios. *)
From Coq Require Import ZArith List Bool Lia Znumtheory.
From PySnark.Base Require Import FieldZ.
From PySnark.Model Require Import Lc Sym Good Gadgets Api Prog.
From PySnark.Proofs Require Import Meta Adv AdvGadgets SnarkCore.
Import ListNotations.
Open Scope Z_scope.

Section C17.
Context {p : Z}.
Definition int_of (v : Api.pyval p) : Z := match v with PInt k => k | _ => 0 end.
Lemma rget_rset_other (r : regs) a v l : l <> a -> rget (p:=p) (rset r a v) l = rget r l.
Proof. intros H. unfold rset. cbn [rget]. destruct (Nat.eqb_spec l a); [contradiction|reflexivity]. Qed.

Theorem C17_arguments_become_public_inputs_in_order : forall ls (r : regs) (s : @Gadgets.gst p),
  NoDup ls -> (forall l, In l ls -> exists k, rget r l = PInt k) ->
  exists r' s', run (conv_pass (p:=p) arg_int ls r) s = (inl r', s', map (fun l => CAlloc Pub (VConst (int_of (rget r l)))) ls)
             /\ npub s' = npub s + Z.of_nat (length ls) /\ npriv s' = npriv s.
Proof.
  induction ls as [|a ls IH]; intros r s ND Hk.
  - exists r, s. cbn. repeat split; lia.
  - inversion ND as [|? ? Hna ND']; subst. destruct (Hk a (or_introl eq_refl)) as [k Ea].
    cbn [conv_pass]. rewrite Ea. cbn [arg_int]. unfold pubval. cbn [bind ret run vscopedb].
    set (s1 := upd_counters s (npub s + 1) (npriv s) (noid s)).
    set (r1 := rset r a (PLC (var_slc (npub s + 1)))).
    destruct (IH r1 s1 ND') as (r' & s' & R & P1 & P2).
    { intros l Hl. destruct (Hk l (or_intror Hl)) as [k' E']. exists k'. unfold r1. rewrite rget_rset_other; [exact E'|]. intros ->. contradiction. }
    exists r', s'. fold s1. fold r1. rewrite R. cbn [map int_of]. repeat split.
    + rewrite Ea. cbn [int_of]. f_equal. f_equal. apply map_ext_in. intros l Hl. unfold r1. rewrite rget_rset_other; [reflexivity|]. intros ->. contradiction.
    + rewrite P1. cbn [npub s1 upd_counters length]. lia.
    + rewrite P2. reflexivity.
Qed.

Variable Hp : prime p.
Variable w : var -> Z.
Hypothesis W0 : w 0 = 1.
Theorem C17_output_is_tied_to_its_wire : forall (s : @Gadgets.gst p) x u s' cs, AdvGadgets.Gok w s ->
  run (lcval x) s = (inl u, s', cs) -> Forall (holds (p:=p) w) (cons_of cs) -> feq p (w (npub s + 1)) (AdvGadgets.ew w x).
Proof. intros s x u s1 cs G R H. eapply lcval_forced; eauto. Qed.
End C17.

Theorem C17_results_become_public_outputs : forall (p : Z) ls (r : regs) (s : @Gadgets.gst p) r' s' cs, NoDup ls -> guard s = None ->
  run (conv_pass (p:=p) res_lc ls r) s = (inl r', s', cs) ->
  let k := length (filter is_secret_int (map (rget r) ls)) in
  npub s' = npub s + Z.of_nat k /\ npriv s' = npriv s /\ length (cons_of cs) = k /\ guard s' = None.
Proof. intros p. exact (res_pass_counts (p:=p)). Qed.
(* the same for the fixed-point and the boolean result passes, and for the two argument passes: one public input per plain int leaf
   (first pass) and per plain float leaf (second pass; F18: ints first, then floats), no constraint, no private variable *)
Theorem C17_fixed_point_results_become_public_outputs : forall (p : Z) (c : cfg) ls (r : regs) (s : @Gadgets.gst p) r' s' cs, NoDup ls -> guard s = None ->
  run (conv_pass (p:=p) res_fxp ls r) s = (inl r', s', cs) ->
  let k := length (filter is_secret_fxp (map (rget r) ls)) in
  npub s' = npub s + Z.of_nat k /\ npriv s' = npriv s /\ length (cons_of cs) = k /\ guard s' = None.
Proof. intros p. exact (res_fxp_pass_counts (p:=p)). Qed.
Theorem C17_boolean_results_become_public_outputs : forall (p : Z) (c : cfg) ls (r : regs) (s : @Gadgets.gst p) r' s' cs, NoDup ls -> guard s = None ->
  run (conv_pass (p:=p) res_bool ls r) s = (inl r', s', cs) ->
  let k := length (filter is_secret_bool (map (rget r) ls)) in
  npub s' = npub s + Z.of_nat k /\ npriv s' = npriv s /\ length (cons_of cs) = k /\ guard s' = None.
Proof. intros p. exact (res_bool_pass_counts (p:=p)). Qed.
Theorem C17_int_arguments_become_public_inputs : forall (p : Z) ls (r : regs) (s : @Gadgets.gst p) r' s' cs, NoDup ls ->
  run (conv_pass (p:=p) arg_int ls r) s = (inl r', s', cs) ->
  let k := length (filter is_plain_int (map (rget r) ls)) in
  npub s' = npub s + Z.of_nat k /\ npriv s' = npriv s /\ cons_of cs = [] /\ guard s' = guard s.
Proof. intros p. exact (arg_int_pass_counts (p:=p)). Qed.
Theorem C17_float_arguments_become_public_inputs : forall (p : Z) (c : cfg) ls (r : regs) (s : @Gadgets.gst p) r' s' cs, NoDup ls ->
  run (conv_pass (p:=p) (arg_float c) ls r) s = (inl r', s', cs) ->
  let k := length (filter is_plain_float (map (rget r) ls)) in
  npub s' = npub s + Z.of_nat k /\ npriv s' = npriv s /\ cons_of cs = [] /\ guard s' = guard s.
Proof. intros p. exact (arg_float_pass_counts (p:=p)). Qed.

Example C17_example :
  let t := model_run (p:=65537) {| bitlength := 4%nat; resolution := 0 |}
             [SConst 0 (LInt 3); SConst 1 (LInt 4); SConst 2 (LInt 5);
              SSnark 4 [RList [RLeaf 0; RTuple [RLeaf 1; RLeaf 2]]] [SBin 3 OMul 0 1] (RLeaf 3)] [] false in
  raised t = None /\ pubs (st t) = [3; 4; 5; 12] /\ length (privs (st t)) = 1%nat.
Proof. vm_compute. repeat split; reflexivity. Qed.

Print Assumptions C17_arguments_become_public_inputs_in_order.
Print Assumptions C17_output_is_tied_to_its_wire.
Print Assumptions C17_results_become_public_outputs.
Print Assumptions C17_fixed_point_results_become_public_outputs.
Print Assumptions C17_boolean_results_become_public_outputs.
Print Assumptions C17_int_arguments_become_public_inputs.
Print Assumptions C17_float_arguments_become_public_inputs.
