(* C19 — the backend in use is the one the configuration names.
   PARTIAL: [select] transcribes the three selection stages of pysnark/runtime.py over the `backends` list translated from
   the source on this run; what `import` really does (sys.modules, importlib, side effects of importing a backend module)
   is observed by the harness (one subprocess per configuration), not proved.  Proved for EVERY order list, every set of
   pre-imported modules, every environment value and every loadability pattern:
     - a pre-imported backend is used (the first one in list order);
     - otherwise a known name selects exactly that backend, or its import error propagates;
     - an unknown name is reported and auto-detection takes over; auto-detection picks the first loadable backend in the
       documented order and is used only when no known backend was named;
   REFUTED (known finding): the reported name does not always identify the field in effect -- importing
   pysnark.zkinterface.backendbellman / backendbulletproofs / libsnark.backendgg also puts their BASE module into
   sys.modules, which comes first in the list, so the name reported is that of the base backend. *)
From Coq Require Import ZArith List Bool String.
From PySnark Require Import Generated.
From PySnark.Model Require Import Select.
Import ListNotations.
Open Scope string_scope.

Theorem C19_preimported_wins : forall order pre load env nm,
  find (fun x => pre (snd x)) order = Some nm -> select order pre load env = Selected (fst nm) (snd nm) false [].
Proof. intros order pre load env nm H. unfold select, stage1. rewrite H. reflexivity. Qed.

Lemma stage2_spec order load env : forall acc,
  NoDup (map fst order) ->
  match stage2 load env order acc with
  | inl None => acc = None /\ forall nm, In nm order -> String.eqb env (fst nm) = false
  | inl (Some nm) => (acc = Some nm /\ forall x, In x order -> String.eqb env (fst x) = false)
                     \/ (In nm order /\ fst nm = env /\ load (snd nm) = true)
  | inr m => exists nm, In nm order /\ fst nm = env /\ snd nm = m /\ load m = false
  end.
Proof.
  induction order as [|nm order IH]; intros acc ND; cbn [stage2].
  - destruct acc as [a|]; [left; split; [reflexivity|intros x []]|split; [reflexivity|intros x []]].
  - inversion ND as [|? ? Hn ND']; subst.
    destruct (String.eqb env (fst nm)) eqn:E.
    + apply String.eqb_eq in E. destruct (load (snd nm)) eqn:L.
      * specialize (IH (Some nm) ND'). destruct (stage2 load env order (Some nm)) as [[r|]|m].
        -- destruct IH as [[Hr Hall]|[Hin [Hf Hl]]]; right.
           ++ inversion Hr; subst r. split; [left; reflexivity|split; [symmetry; exact E|exact L]].
           ++ split; [right; exact Hin|split; assumption].
        -- destruct IH as [Hc _]. discriminate Hc.
        -- destruct IH as [x [Hin [Hf [Hs Hl]]]]. exists x. split; [right; exact Hin|repeat split; assumption].
      * exists nm. split; [left; reflexivity|repeat split; [symmetry; exact E|exact L]].
    + specialize (IH acc ND'). destruct (stage2 load env order acc) as [[r|]|m].
      * destruct IH as [[Hr Hall]|[Hin [Hf Hl]]]; [left|right].
        -- split; [exact Hr|]. intros x [<-|Hx]; [exact E|apply Hall; exact Hx].
        -- split; [right; exact Hin|split; assumption].
      * destruct IH as [Hc Hall]. split; [exact Hc|]. intros x [<-|Hx]; [exact E|apply Hall; exact Hx].
      * destruct IH as [x [Hin R]]. exists x. split; [right; exact Hin|exact R].
Qed.

Theorem C19_known_name_selects_exactly_that : forall order pre load env name modname u errs,
  NoDup (map fst order) -> find (fun x => pre (snd x)) order = None -> known order env = true ->
  select order pre load (Some env) = Selected name modname u errs ->
  name = env /\ In (name, modname) order /\ load modname = true /\ u = false /\ errs = [].
Proof.
  intros order pre load env name modname u errs ND H1 K S. unfold select, stage1 in S. rewrite H1 in S.
  pose proof (stage2_spec order load env None ND) as Sp.
  destruct (stage2 load env order None) as [[nm|]|m].
  - inversion S; subst. destruct Sp as [[Hc _]|[Hin [Hf Hl]]]; [discriminate Hc|].
    destruct nm as [a b]. cbn in *. subst a. repeat split; assumption.
  - exfalso. destruct Sp as [_ Hall]. unfold known in K. apply existsb_exists in K. destruct K as [x [Hx Ex]]. rewrite (Hall x Hx) in Ex. discriminate.
  - discriminate S.
Qed.
Theorem C19_known_unloadable_fails_loudly : forall order pre load env m,
  NoDup (map fst order) -> find (fun x => pre (snd x)) order = None ->
  select order pre load (Some env) = ImportFails m -> exists nm, In nm order /\ fst nm = env /\ snd nm = m /\ load m = false.
Proof.
  intros order pre load env m ND H1 S. unfold select, stage1 in S. rewrite H1 in S.
  pose proof (stage2_spec order load env None ND) as Sp.
  destruct (stage2 load env order None) as [[nm|]|m'].
  - discriminate S.
  - destruct (stage3 load order []) as [[nm|] errs]; discriminate S.
  - inversion S; subst. exact Sp.
Qed.

Lemma stage3_first order load : forall errs nm errs',
  stage3 load order errs = (Some nm, errs') ->
  exists l1 l2, order = (l1 ++ nm :: l2)%list /\ load (snd nm) = true /\ (forall x, In x l1 -> load (snd x) = false) /\ errs' = (errs ++ map snd l1)%list.
Proof.
  induction order as [|x order IH]; intros errs nm errs' H; cbn [stage3] in H; [discriminate|].
  destruct (load (snd x)) eqn:L.
  - inversion H; subst. exists [], order. repeat split; [exact L|intros y []|now rewrite app_nil_r].
  - destruct (IH _ _ _ H) as (l1 & l2 & E & Ln & Hall & Er). exists (x :: l1), l2. subst order. repeat split.
    + exact Ln.
    + intros y [<-|Hy]; [exact L|apply Hall; exact Hy].
    + rewrite Er, <- app_assoc. reflexivity.
Qed.
Theorem C19_autodetect_is_first_loadable : forall order pre load name modname u errs,
  find (fun x => pre (snd x)) order = None ->
  select order pre load None = Selected name modname u errs ->
  u = false /\ exists l1 l2, order = (l1 ++ (name, modname) :: l2)%list /\ load modname = true /\ (forall x, In x l1 -> load (snd x) = false).
Proof.
  intros order pre load name modname u errs H1 S. unfold select, stage1 in S. rewrite H1 in S.
  destruct (stage3 load order []) as [[nm|] e] eqn:E3; [|discriminate].
  destruct (stage3_first order load [] nm e E3) as (l1 & l2 & E & L & Hall & _).
  inversion S; subst u name modname. split; [reflexivity|].
  exists l1, l2. destruct nm; cbn in *. repeat split; assumption.
Qed.
Theorem C19_unknown_name_reported_then_autodetect : forall order pre load env,
  find (fun x => pre (snd x)) order = None -> known order env = false ->
  select order pre load (Some env) = match stage3 load order [] with (Some nm, errs) => Selected (fst nm) (snd nm) true errs | (None, errs) => NoBackend errs end.
Proof.
  intros order pre load env H1 K. unfold select, stage1. rewrite H1.
  assert (S2 : forall l acc, (forall x, In x l -> String.eqb env (fst x) = false) -> stage2 load env l acc = inl acc).
  { induction l as [|x l IH]; intros acc Hall; cbn [stage2]; [reflexivity|]. rewrite (Hall x (or_introl eq_refl)). apply IH. intros y Hy. apply Hall. right. exact Hy. }
  rewrite S2; [reflexivity|]. intros x Hx. unfold known in K. destruct (String.eqb env (fst x)) eqn:E; [|reflexivity].
  exfalso. assert (existsb (fun nm => String.eqb env (fst nm)) order = true) by (apply existsb_exists; exists x; split; assumption). congruence.
Qed.

(* the documented order, as translated from the source on this run *)
Example C19_order : map fst backends = ["libsnark"; "libsnarkgg"; "qaptools"; "snarkjs"; "zkinterface"; "zkifbellman"; "zkifbulletproofs"; "nobackend"].
Proof. reflexivity. Qed.
(* refuted: pre-importing the bellman variant also loads its base module, which comes first: reported name "zkinterface" *)
Theorem C19_name_identifies_refuted :
  let pre m := orb (String.eqb m "pysnark.zkinterface.backendbellman") (String.eqb m "pysnark.zkinterface.backend") in
  select backends pre (fun _ => true) None = Selected "zkinterface" "pysnark.zkinterface.backend" false [].
Proof. vm_compute. reflexivity. Qed.

Print Assumptions C19_known_name_selects_exactly_that.
Print Assumptions C19_autodetect_is_first_loadable.
Print Assumptions C19_unknown_name_reported_then_autodetect.
