(* C14 — fixed-point operations equal exact scaled-integer arithmetic.
   PARTIAL.  With R = 2^resolution and values represented by integers v*R, proved about the model (Proofs/FxValues.v over the
   wp calculus), for every prime, resolution, generator state satisfying the invariant and ALL representations:
     - the traced product of two fixed-point values returns floor(a*b / R) and the traced quotient floor(a*R / b) (Python's
       floor for both signs) whenever they do not raise;
     - multiplication by an integer, addition, subtraction and negation are exact on representations (pure linear
       combinations).
   Through the model of Python's operator dispatch (C14_op_ theorems): a * b, a / b, a + b, a - b, a * k on fixed-point operands
   and the comparisons <, <=, == between fixed-point values and < against a plain integer compare the represented numbers
   (same positive scale on both sides) -- for all representations whenever error checking is on.
   and + / * / < with a plain or secret integer on the right (the integer k stands for the representation k * 2^r).
   NOT proved in Coq: the conversion of boolean and float operands and the reflected forms,
   floor division / modulo on the represented numbers, powers and val(); they are decided on the real code by the differential
   check against an exact scaled-integer reference over an operator x operand-kind matrix (fixed-point, fractional and negative
   values, secret int, boolean, int, float; both orders) and random programs, and by the trace correspondence of the
   LinCombFxp model. *)
From Coq Require Import ZArith List Bool Lia Znumtheory.
From PySnark.Base Require Import FieldZ.
From PySnark.Model Require Import Lc Sym Good Gadgets Api Prog.
From PySnark.Proofs Require Import Meta FieldOk Wp WpBase GadgetsOK Values FxValues OpValues Complete.
Import ListNotations.
Open Scope Z_scope.

Theorem C14_product : forall (p : Z) ins ig (c : cfg) rec (s : @Gadgets.gst p) sg f g o, WpBase.Inv ins ig s sg ->
  Values.returns ins ig (fxp_dunder c rec OMul f (PFxp o g)) s sg
    (fx_rep ins ig (fun q => q = (Sym.veval p ins ig sg (sval f) * Sym.veval p ins ig sg (sval g)) / Api.R c)).
Proof. intros p ins ig c rec s sg f g o I. exact (fxp_mul_value ins ig c rec s sg f g o I). Qed.
Theorem C14_quotient : forall (p : Z) ins ig (c : cfg) rec (s : @Gadgets.gst p) sg f g o, WpBase.Inv ins ig s sg ->
  Values.returns ins ig (fxp_dunder c rec OTrueDiv f (PFxp o g)) s sg
    (fx_rep ins ig (fun q => q = (Sym.veval p ins ig sg (sval f) * Api.R c) / Sym.veval p ins ig sg (sval g))).
Proof. intros p ins ig c rec s sg f g o I. exact (fxp_div_value ins ig c rec s sg f g o I). Qed.
Theorem C14_linear_operations_are_exact : forall (p : Z) ins ig sg (f g : Sym.slc p) k,
  Sym.veval p ins ig sg (sval (scale f k)) = Sym.veval p ins ig sg (sval f) * k /\
  Sym.veval p ins ig sg (sval (add f g)) = Sym.veval p ins ig sg (sval f) + Sym.veval p ins ig sg (sval g) /\
  Sym.veval p ins ig sg (sval (sub f g)) = Sym.veval p ins ig sg (sval f) - Sym.veval p ins ig sg (sval g) /\
  Sym.veval p ins ig sg (sval (neg f)) = - Sym.veval p ins ig sg (sval f).
Proof. intros p ins ig sg f g k. exact (fxp_linear_exact ins ig sg f g k). Qed.

(* ---- through the model of Python's operator dispatch ---- *)
Section C14_op.
Variable p : Z.
Hypothesis Hp : prime p.
Variable ins : list Z.
Variable ig : bool.
Variable c : cfg.
Variables (s : @Gadgets.gst p) (sg : store).
Hypothesis I : WpBase.Inv ins ig s sg.
Hypothesis Chk : Sym.beval p ins ig sg (ignore s) = false.          (* error checking is on *)
Local Notation v x := (Sym.veval p ins ig sg (sval x)).
Local Notation b2z b := (if b then 1 else 0).
Local Notation returns := (Values.returns ins ig).
Local Notation isb := (OpValues.is_bool ins ig).
Local Notation isfx := (OpValues.is_fx ins ig).
Theorem C14_op_mul : forall o o' f g, returns (pyop c OMul (PFxp o f) (PFxp o' g)) s sg (isfx (fun r => r = (v f * v g) / Api.R c)).
Proof. exact (op_fx_mul ins ig c s sg I). Qed.
Theorem C14_op_truediv : forall o o' f g, returns (pyop c OTrueDiv (PFxp o f) (PFxp o' g)) s sg (isfx (fun r => r = (v f * Api.R c) / v g)).
Proof. exact (op_fx_truediv ins ig c s sg I). Qed.
Theorem C14_op_add : forall o o' f g, returns (pyop c OAdd (PFxp o f) (PFxp o' g)) s sg (isfx (fun r => r = v f + v g)).
Proof. exact (op_fx_add ins ig c s sg). Qed.
Theorem C14_op_sub : forall o o' f g, returns (pyop c OSub (PFxp o f) (PFxp o' g)) s sg (isfx (fun r => r = v f - v g)).
Proof. exact (op_fx_sub ins ig c s sg). Qed.
Theorem C14_op_mul_int : forall o f k, returns (pyop c OMul (PFxp o f) (PInt k)) s sg (isfx (fun r => r = v f * k)).
Proof. exact (op_fx_mul_int ins ig c s sg). Qed.
Theorem C14_op_lt : forall o o' f g, returns (pyop c OLt (PFxp o f) (PFxp o' g)) s sg (isb (fun r => r = b2z (v f <? v g))).
Proof. exact (op_fx_lt ins ig c s sg I Chk). Qed.
Theorem C14_op_le : forall o o' f g, returns (pyop c OLe (PFxp o f) (PFxp o' g)) s sg (isb (fun r => r = b2z (v f <=? v g))).
Proof. exact (op_fx_le ins ig c s sg I Chk). Qed.
Theorem C14_op_eq : forall o o' f g, returns (pyop c OEq (PFxp o f) (PFxp o' g)) s sg (isb (fun r => r = b2z (v f =? v g))).
Proof. exact (op_fx_eq ins ig (field_ok_prime p Hp) c s sg I). Qed.
Theorem C14_op_lt_int : forall o f k, returns (pyop c OLt (PFxp o f) (PInt k)) s sg (isb (fun r => r = b2z (v f <? k * Api.R c))).
Proof. exact (op_fx_lt_int ins ig c s sg I Chk). Qed.
(* mixed operand classes: an integer k / a secret integer y stands for the number k / y, i.e. the representation k * 2^r *)
Theorem C14_op_add_int : forall o f k, returns (pyop c OAdd (PFxp o f) (PInt k)) s sg (isfx (fun r => r = v f + k * Api.R c)).
Proof. exact (op_fx_add_int ins ig c s sg). Qed.
Theorem C14_op_add_secret_int : forall o f y, returns (pyop c OAdd (PFxp o f) (PLC y)) s sg (isfx (fun r => r = v f + v y * Api.R c)).
Proof. exact (op_fx_add_lc ins ig c s sg). Qed.
Theorem C14_op_mul_secret_int : forall o f y, returns (pyop c OMul (PFxp o f) (PLC y)) s sg (isfx (fun r => r = v f * v y)).
Proof. exact (op_fx_mul_lc ins ig c s sg I). Qed.
Theorem C14_op_lt_secret_int : forall o f y, returns (pyop c OLt (PFxp o f) (PLC y)) s sg (isb (fun r => r = b2z (v f <? v y * Api.R c))).
Proof. exact (op_fx_lt_lc ins ig c s sg I Chk). Qed.
(* // and % : floor division and modulo of the represented rationals A = a/2^r, B = b/2^r.  On representations: A // B = floor(a/b) (a whole
   number, stored rescaled as floor(a/b) * 2^r) and A % B = (a mod b) / 2^r (stored as a mod b); an int k stands for k * 2^r *)
Theorem C14_op_floordiv : forall o o' f g, returns (pyop c OFloorDiv (PFxp o f) (PFxp o' g)) s sg (isfx (fun r => r = (v f / v g) * Api.R c)).
Proof. exact (op_fx_floordiv ins ig c s sg I). Qed.
Theorem C14_op_mod : forall o o' f g, returns (pyop c OMod (PFxp o f) (PFxp o' g)) s sg (isfx (fun r => r = v f mod v g)).
Proof. exact (op_fx_mod ins ig c s sg I). Qed.
Theorem C14_op_floordiv_int : forall o f k, returns (pyop c OFloorDiv (PFxp o f) (PInt k)) s sg (isfx (fun r => r = (v f / (k * Api.R c)) * Api.R c)).
Proof. exact (op_fx_floordiv_int ins ig c s sg I). Qed.
Theorem C14_op_mod_int : forall o f k, returns (pyop c OMod (PFxp o f) (PInt k)) s sg (isfx (fun r => r = v f mod (k * Api.R c))).
Proof. exact (op_fx_mod_int ins ig c s sg I). Qed.
End C14_op.
Print Assumptions C14_op_floordiv.
Print Assumptions C14_op_mod.
Print Assumptions C14_op_floordiv_int.
Print Assumptions C14_op_mod_int.

(* non-vacuity: 2.5 * -1.75 and 2.5 / -1.75 at resolution 3 (representations 20 and -14): floor(-280/8) = -35, floor(-35*8/20) = -14 *)
Example C14_example :
  let t := model_run (p:=65537) {| bitlength := 8%nat; resolution := 3 |}
             [SConst 0 (LFloat 20 3); SConst 1 (LFloat (-14) 3); SInput 2 IPrivFxp 0; SBin 3 OMul 2 0; SBin 4 OMul 3 1; SBin 5 OTrueDiv 4 3] [1] false in
  raised t = None /\ map (fun o => snd (fst o)) (filter (fun o => fst (fst o) =? 3) (outs t)) = [8; 20; -35; -14].
Proof. vm_compute. split; reflexivity. Qed.

Print Assumptions C14_product.
Print Assumptions C14_op_add_int.
Print Assumptions C14_op_add_secret_int.
Print Assumptions C14_op_mul_secret_int.
Print Assumptions C14_op_lt_secret_int.

Print Assumptions C14_op_mul.
Print Assumptions C14_op_truediv.
Print Assumptions C14_op_add.
Print Assumptions C14_op_sub.
Print Assumptions C14_op_mul_int.
Print Assumptions C14_op_lt.
Print Assumptions C14_op_le.
Print Assumptions C14_op_eq.
Print Assumptions C14_op_lt_int.

Print Assumptions C14_quotient.
