(* C14 — fixed-point operations equal exact scaled-integer arithmetic.
   PARTIAL.  With R = 2^resolution and values represented by integers v*R, proved about the model (Proofs/FxValues.v over the
   wp calculus), for every prime, resolution, generator state satisfying the invariant and ALL representations:
     - the traced product of two fixed-point values returns floor(a*b / R) and the traced quotient floor(a*R / b) (Python's
       floor for both signs) whenever they do not raise;
     - multiplication by an integer, addition, subtraction and negation are exact on representations (pure linear
       combinations).
   NOT proved in Coq: the conversion of the other operand kinds (secret int, boolean, int, float on either side), comparisons,
   floor division / modulo on the represented numbers, powers and val(); they are decided on the real code by the differential
   check against an exact scaled-integer reference over an operator x operand-kind matrix (fixed-point, fractional and negative
   values, secret int, boolean, int, float; both orders) and random programs, and by the trace correspondence of the
   LinCombFxp model. *)
From Coq Require Import ZArith List Bool Lia Znumtheory.
From PySnark.Base Require Import FieldZ.
From PySnark.Model Require Import Lc Sym Good Gadgets Api Prog.
From PySnark.Proofs Require Import Meta Wp WpBase GadgetsOK Values FxValues Complete.
Import ListNotations.
Open Scope Z_scope.

Theorem C14_product : forall (p : Z) ins ig (c : cfg) rec (s : @Gadgets.gst p) sg f g o, WpBase.Inv ins ig s sg ->
  Values.returns ins ig (fxp_dunder c rec OMul f (PFxp o g)) s sg
    (fx_rep ins ig (fun q => q = (Sym.veval p ins ig sg (sval f) * Sym.veval p ins ig sg (sval g)) / Api.R c)).
Proof. intros p ins ig c rec s sg f g o I. exact (fxp_mul_value ins ig c rec s sg f g o I). Qed.
Theorem C14_quotient : forall (p : Z) ins ig (c : cfg) rec (s : @Gadgets.gst p) sg f g o, WpBase.Inv ins ig s sg ->
  Values.returns ins ig (fxp_dunder c rec OTrueDiv f (PFxp o g)) s sg
    (fx_rep ins ig (fun q => q = (Sym.veval p ins ig sg (sval f) * Api.R c) / Sym.veval p ins ig sg (sval g))).
Proof. intros p ins ig c rec s sg f g o I. exact (fxp_div_value ins ig c rec s sg f g o I). Qed.
Theorem C14_linear_operations_are_exact : forall (p : Z) ins ig sg (f g : Sym.slc p) k,
  Sym.veval p ins ig sg (sval (scale f k)) = Sym.veval p ins ig sg (sval f) * k /\
  Sym.veval p ins ig sg (sval (add f g)) = Sym.veval p ins ig sg (sval f) + Sym.veval p ins ig sg (sval g) /\
  Sym.veval p ins ig sg (sval (sub f g)) = Sym.veval p ins ig sg (sval f) - Sym.veval p ins ig sg (sval g) /\
  Sym.veval p ins ig sg (sval (neg f)) = - Sym.veval p ins ig sg (sval f).
Proof. intros p ins ig sg f g k. exact (fxp_linear_exact ins ig sg f g k). Qed.

(* non-vacuity: 2.5 * -1.75 and 2.5 / -1.75 at resolution 3 (representations 20 and -14): floor(-280/8) = -35, floor(-35*8/20) = -14 *)
Example C14_example :
  let t := model_run (p:=65537) {| bitlength := 8%nat; resolution := 3 |}
             [SConst 0 (LFloat 20 3); SConst 1 (LFloat (-14) 3); SInput 2 IPrivFxp 0; SBin 3 OMul 2 0; SBin 4 OMul 3 1; SBin 5 OTrueDiv 4 3] [1] false in
  raised t = None /\ map (fun o => snd (fst o)) (filter (fun o => fst (fst o) =? 3) (outs t)) = [8; 20; -35; -14].
Proof. vm_compute. split; reflexivity. Qed.

Print Assumptions C14_product.
Print Assumptions C14_quotient.
