(* C18 — proof artefacts are emitted at exit only for successful runs, and completely.
   PARTIAL: [ExitHook.interposer]/[status]/[atexit_runs] tabulate what CPython does at shutdown; that table is observed
   (one fresh interpreter per termination mode x statement position x backend in the harness), not proved.
   Proved about the decision logic of atexitmaybe.maybe + runtime.final over that table:
     - for every way of terminating through sys.exit, falling off the end, an uncaught exception or KeyboardInterrupt,
       prove() runs iff automatic proving is on and the exit status is 0;
     - with automatic proving off prove() never runs;
     - REFUTED for `raise SystemExit(k)` and the builtin exit(k) with k <> 0: the status is non-zero yet prove() runs
       (neither the interposed sys.exit nor sys.excepthook is involved) -- a known finding. *)
From Coq Require Import ZArith List Bool Lia.
From PySnark.Model Require Import ExitHook.
Import ListNotations.
Open Scope Z_scope.

Definition through_hooks (m : tmode) : bool :=
  match m with FallOff | SysExit _ | Uncaught | KbdInterrupt => true | _ => false end.

(* the status of sys.exit(k) is k mod 256: sys.exit(256) ends with status 0 but is recorded as a failure (no artefacts): the safe direction *)
Theorem C18_never_proves_after_a_failure : forall autoprove m, through_hooks m = true -> prove_runs autoprove m = true -> status m = 0 /\ autoprove = true.
Proof.
  intros ap m H P. unfold prove_runs, hook_calls_final in P. apply andb_prop in P. destruct P as [P A].
  destruct m as [|a|a|a| | |k]; try discriminate H; cbn in *; try (split; [reflexivity|exact A]); try discriminate P.
  destruct a as [| k | | | | |]; cbn in *; try discriminate P; try (split; [reflexivity|exact A]).
  rewrite andb_true_r in P. apply Z.eqb_eq in P. subst k. split; [reflexivity|exact A].
Qed.
Theorem C18_proves_after_success : forall m, through_hooks m = true -> status m = 0 ->
  (forall k, m = SysExit (AInt k) -> k = 0) -> prove_runs true m = true.
Proof.
  intros m H S K. destruct m as [|a|a|a| | |k]; try discriminate H; cbn in *; try reflexivity; try discriminate S.
  destruct a as [| k | | | | |]; cbn in *; try reflexivity; try discriminate S. rewrite (K k eq_refl). reflexivity.
Qed.
Theorem C18_autoprove_off : forall m, prove_runs false m = false.
Proof. intros m. unfold prove_runs. apply andb_false_r. Qed.
Theorem C18_raise_systemexit_refuted : exists m, status m <> 0 /\ prove_runs true m = true.
Proof. exists (RaiseSystemExit (AInt 1)). split; [discriminate|reflexivity]. Qed.
Theorem C18_builtin_exit_refuted : exists m, status m <> 0 /\ prove_runs true m = true.
Proof. exists (BuiltinExit (AInt 3)). split; [discriminate|reflexivity]. Qed.


(* ---- all histories of swallowed sys.exit calls followed by any way of terminating through the hooks ---- *)
Theorem C18_history_never_proves_after_a_failure : forall autoprove h,
  through_hooks (final h) = true -> h_prove_runs autoprove h = true -> h_status h = 0 /\ autoprove = true.
Proof.
  intros ap [cs m] H P. unfold h_prove_runs, h_hook_calls_final, h_recorded, h_status in *. cbn [final caught] in *.
  apply andb_prop in P. destruct P as [P A]. split; [|exact A].
  destruct m as [|a|a|a| | |k]; try discriminate H; cbn in *; try reflexivity.
  - destruct a as [| k | | | | |]; cbn in *; try discriminate P; try reflexivity.
    rewrite andb_true_r in P. apply Z.eqb_eq in P. subst k. reflexivity.
  - rewrite andb_false_r in P. discriminate P.
  - rewrite andb_false_r in P. discriminate P.
Qed.
(* an uncaught exception is never followed by a proof, whatever sys.exit calls were swallowed before it (e.g. sys.exit(0) inside
   a try whose finally block raises) *)
Theorem C18_history_uncaught_never_proves : forall autoprove cs, h_prove_runs autoprove (R cs Uncaught) = false /\ h_prove_runs autoprove (R cs KbdInterrupt) = false.
Proof. intros ap cs. unfold h_prove_runs, h_hook_calls_final, h_recorded. cbn. rewrite !andb_false_r. split; reflexivity. Qed.
(* a script that swallowed only successful exits and then ends successfully is proved *)
Theorem C18_history_proves_after_success : forall cs m, through_hooks m = true -> status m = 0 ->
  (forall k, m = SysExit (AInt k) -> k = 0) -> Forall (fun a => code_ok (RCode a) = true) cs -> h_prove_runs true (R cs m) = true.
Proof.
  intros cs m H S K F. unfold h_prove_runs, h_hook_calls_final, h_recorded. cbn [final caught].
  assert (L : code_ok (match rev cs with a :: _ => RCode a | [] => RNotCalled end) = true).
  { destruct (rev cs) as [|a l] eqn:E; [reflexivity|]. rewrite Forall_forall in F. apply F. apply in_rev. rewrite E. left. reflexivity. }
  destruct m as [|a|a|a| | |k]; try discriminate H; cbn in *; try discriminate S; rewrite ?L; try reflexivity.
  destruct a as [| k | | | | |]; cbn in *; try reflexivity; try discriminate S. rewrite (K k eq_refl). reflexivity.
Qed.
Example C18_history_example :
  h_prove_runs true (R [AInt 0] Uncaught) = false /\ h_prove_runs true (R [AInt 0] FallOff) = true /\
  h_prove_runs true (R [] (SysExit AEmptyStr)) = false /\ h_status (R [] (SysExit AEmptyStr)) = 1.
Proof. repeat split; reflexivity. Qed.

Print Assumptions C18_never_proves_after_a_failure.
Print Assumptions C18_history_never_proves_after_a_failure.
Print Assumptions C18_history_uncaught_never_proves.
Print Assumptions C18_history_proves_after_success.
Print Assumptions C18_proves_after_success.
