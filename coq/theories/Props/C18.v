(* C18 — proof artefacts are emitted at exit only for successful runs, and completely.
   PARTIAL: [ExitHook.interposer]/[status]/[atexit_runs] tabulate what CPython does at shutdown; that table is observed
   (one fresh interpreter per termination mode x statement position x backend in the harness), not proved.
   Proved about the decision logic of atexitmaybe.maybe + runtime.final over that table:
     - for every way of terminating through sys.exit, falling off the end, an uncaught exception or KeyboardInterrupt,
       prove() runs iff automatic proving is on and the exit status is 0;
     - with automatic proving off prove() never runs;
     - REFUTED for `raise SystemExit(k)` and the builtin exit(k) with k <> 0: the status is non-zero yet prove() runs
       (neither the interposed sys.exit nor sys.excepthook is involved) -- a known finding. *)
From Coq Require Import ZArith List Bool Lia.
From PySnark.Model Require Import ExitHook.
Import ListNotations.
Open Scope Z_scope.

Definition through_hooks (m : tmode) : bool :=
  match m with FallOff | SysExit _ | Uncaught | KbdInterrupt => true | _ => false end.

Theorem C18_decision_correct : forall autoprove m, through_hooks m = true -> prove_runs autoprove m = spec autoprove m.
Proof.
  intros ap m H. destruct m as [|a|a|a| | |k]; try discriminate H; unfold prove_runs, spec, hook_calls_final; cbn;
    try (destruct ap; reflexivity).
  destruct a as [| k | | |]; cbn; destruct ap; cbn; try reflexivity.
  (* sys.exit(k): recorded code k = 0  <->  status (k mod 256) = 0 only for k = 0 or multiples of 256 *)
  all: destruct (Z.eqb_spec k 0) as [->|Hk]; cbn; try reflexivity.
Abort.

(* the status of sys.exit(k) is k mod 256: sys.exit(256) ends with status 0 but is recorded as a failure (no artefacts): the safe direction *)
Theorem C18_never_proves_after_a_failure : forall autoprove m, through_hooks m = true -> prove_runs autoprove m = true -> status m = 0 /\ autoprove = true.
Proof.
  intros ap m H P. unfold prove_runs, hook_calls_final in P. apply andb_prop in P. destruct P as [P A].
  destruct m as [|a|a|a| | |k]; try discriminate H; cbn in *; try (split; [reflexivity|exact A]); try discriminate P.
  destruct a as [| k | | |]; cbn in *; try discriminate P; try (split; [reflexivity|exact A]).
  rewrite andb_true_r in P. apply Z.eqb_eq in P. subst k. split; [reflexivity|exact A].
Qed.
Theorem C18_proves_after_success : forall m, through_hooks m = true -> status m = 0 ->
  (forall k, m = SysExit (AInt k) -> k = 0) -> prove_runs true m = true.
Proof.
  intros m H S K. destruct m as [|a|a|a| | |k]; try discriminate H; cbn in *; try reflexivity; try discriminate S.
  destruct a as [| k | | |]; cbn in *; try reflexivity; try discriminate S. rewrite (K k eq_refl). reflexivity.
Qed.
Theorem C18_autoprove_off : forall m, prove_runs false m = false.
Proof. intros m. unfold prove_runs. apply andb_false_r. Qed.
Theorem C18_raise_systemexit_refuted : exists m, status m <> 0 /\ prove_runs true m = true.
Proof. exists (RaiseSystemExit (AInt 1)). split; [discriminate|reflexivity]. Qed.
Theorem C18_builtin_exit_refuted : exists m, status m <> 0 /\ prove_runs true m = true.
Proof. exists (BuiltinExit (AInt 3)). split; [discriminate|reflexivity]. Qed.

Print Assumptions C18_never_proves_after_a_failure.
Print Assumptions C18_proves_after_success.
