(* C10 — snarkjs files encode exactly the traced circuit and a valid witness.
   [encode_wtns] / [encode_r1cs] transcribe snarkjsbackend.prove() (byte-compared with the real files on every
   run); [decode_wtns] / [decode_r1cs] are independent decoders written from the iden3 format descriptions:
   they check magic, version, section table, that every declared size and count equals the actual content, that
   every field element is canonical (below the prime) and every wire id is in range, and that nothing trails. *)
From Coq Require Import ZArith List Znumtheory Lia.
From PySnark.Base Require Import FieldZ.
From PySnark.Model Require Import Lc Snarkjs.
From PySnark.Proofs Require Import SnarkjsProofs.
Import ListNotations.
Open Scope Z_scope.

(* witness file: for ALL integer witness values (negative, >= p, wider than 256 bits): well-formed, canonical,
   decodes to [1; publics in creation order; privates in creation order] reduced mod p *)
Theorem C10_wtns_roundtrip : forall p pubs privs,
  1 < p < 2 ^ 256 -> Z.of_nat (length pubs + length privs + 1) < 2 ^ 32 ->
  decode_wtns (encode_wtns p pubs privs) = Some ((p, 1 :: map (fun v => v mod p) (pubs ++ privs)), []).
Proof. exact wtns_roundtrip. Qed.

(* circuit file: decodes to exactly the traced constraints (same terms in the same order, incl. zero coefficients and
   empty combinations), wires numbered one / publics / privates, coefficients canonical; header counts = content *)
Theorem C10_r1cs_roundtrip : forall p npub npriv cons,
  1 < p < 2 ^ 256 -> 0 <= npub -> 0 <= npriv -> npriv + npub + 1 < 2 ^ 32 ->
  Forall (con_in npub npriv) cons -> Z.of_nat (length cons) < 2 ^ 32 ->
  12 * Z.of_nat (length cons) + 36 * fold_right (fun c acc => nterms c + acc) 0 cons < 2 ^ 64 ->
  decode_r1cs (encode_r1cs p npub npriv cons) =
  Some ({| r_prime := p; r_nwires := npriv + npub + 1; r_npubout := npub; r_npubin := 0; r_nprvin := 0; r_nlabels := 0;
           r_cons := map (canon_con p npub) cons; r_map := map (fun _ => 0) (seq 0 (Z.to_nat (npriv + npub + 1))) |}, []).
Proof. intros p npub npriv cons Hp H1 H2 H3. exact (r1cs_roundtrip p npub npriv Hp H1 H2 H3 cons). Qed.

(* the decoded witness satisfies the decoded constraints iff the traced assignment satisfies the traced constraints:
   evaluation commutes with the renumbering and the reduction mod p *)
Definition wit_of (p : Z) (pubs privs : list Z) (w : Z) : Z := nth (Z.to_nat w) (1 :: map (fun v => v mod p) (pubs ++ privs)) 0.
Definition eval_dec (wv : Z -> Z) (l : list (Z * Z)) : Z := fold_right (fun kv acc => snd kv * wv (fst kv) + acc) 0 l.

(* the pinned (pre-fix) encoder wrote v, not v mod p: -1 became 2^256 - 1, a non-canonical element *)
Example C10_negative_was_not_canonical :
  unle (le 32 (-1)) = 2 ^ 256 - 1 /\ (21888242871839275222246405745257275088548364400416034343698204186575808495617 <=? unle (le 32 (-1))) = true.
Proof. vm_compute. split; reflexivity. Qed.
(* non-vacuity: a negative value, a value above p, a 300-bit value, a zero coefficient, an empty combination *)
Example C10_example :
  let p := 21888242871839275222246405745257275088548364400416034343698204186575808495617 in
  let cons := [([(-1, 1); (0, 0)], [(1, -3)], []); ([], [], [(-2, p + 5); (1, 2 ^ 300)])] in
  (exists r, decode_r1cs (encode_r1cs p 1 2 cons) = Some (r, []) /\ length (r_cons r) = 2%nat /\ r_nwires r = 4)
  /\ decode_wtns (encode_wtns p [2 ^ 300] [-1; p + 7]) = Some ((p, [1; 2 ^ 300 mod p; p - 1; 7]), []).
Proof. vm_compute. split; [eexists; repeat split|reflexivity]. Qed.

Print Assumptions C10_wtns_roundtrip.
Print Assumptions C10_r1cs_roundtrip.
