(* C05 — traced arithmetic agrees with Python semantics, or raises.
   PARTIAL.  Proved about the model (Proofs/Values.v over the wp calculus of Proofs/Wp.v), for every prime p, every generator
   state satisfying the invariant of Proofs/WpBase.v with error checking on, and ALL operand values: whenever the operation
   does not raise, the value it returns is the value of the same expression on Python integers --
     x * y, x < y, x <= y, x > y, x >= y, x == y, x != y (as 0/1), x / y (exact quotient; it only returns when y <> 0 and
     y divides x), divmod / // / % (Python's floor division and modulo for both signs of the divisor, which coincide with
     Coq's Z.div / Z.modulo), bit decomposition (the Python bits (v >> i) & 1), selection.
   [C05_meaning] says what "returns" means for an actual run of the interpreter.
   Inside the documented domain they do not raise (C05_*_in_domain, Proofs/NoRaise*.v: a total-correctness calculus,
   [C05_in_domain_meaning]): comparisons whose difference fits the bitlength, == on operands that are equal or differ by a
   non-multiple of p, products, k-bit decompositions of values in [0, 2^k) -- in unguarded code with error checking on, for
   operands that mention allocated variables only.
   At the operator level (through the Python operator dispatch of Model/Api.v, Proofs/OpValues.v): x < y, x <= y, x == y,
   x * y, x // y, x % y on two secret integers, and x < k, k < y (reflected), x // k with an int k (the C05_op_ theorems).
   Also at the operator level: +, -, unary -, * with an int on either side, >, >=, !=, == with an int, exact division, and the
   connectives &, |, ^, ~ on secret booleans.
   Bitwise &, |, ^ on two secret integers and >> by a public amount return Python's result on the operands reduced to bitlength
   bits (Proofs/BitValues.v).
   NOT proved in Coq: the remaining operand-kind combinations (bool with int, other reflected operators), << and shifts by a secret amount, ~ on whole
   numbers, powers, abs, division inside the domain; they are decided by the differential check of the real code against a
   plain-integer reference on an operator x operand-kind matrix and random programs. *)
From Coq Require Import ZArith List Bool Lia Znumtheory.
From PySnark.Base Require Import FieldZ Bits.
From PySnark.Model Require Import Lc Sym Good Gadgets Api Prog.
From PySnark.Proofs Require Import Meta Wp WpBase FieldOk GadgetsOK Values Complete NoRaise NoRaiseGadgets OpValues PowValues.
Import ListNotations.
Open Scope Z_scope.

Section C05.
Variable p : Z.
Hypothesis Hp : prime p.
Variables (ins : list Z) (ig : bool) (c : cfg) (s : @Gadgets.gst p) (sg : store).
Hypothesis I : WpBase.Inv ins ig s sg.
Hypothesis Chk : Sym.beval p ins ig sg (ignore s) = false.
Local Notation v x := (Sym.veval p ins ig sg (sval x)).
Local Notation rv r sg' := (Sym.veval p ins ig sg' (sval r)).
Local Notation returns := (Values.returns ins ig).
Local Notation b2z b := (if b then 1 else 0).

Theorem C05_meaning : forall A (m : Gadgets.G A) P, returns m s sg P ->
  forall t, st t = sg -> raised t = None -> forall r s' cs, run m s = (r, s', cs) ->
  let t' := fold_left (Sym.step p ins ig) cs t in raised t' = None -> exists a, r = inl a /\ P a (st t').
Proof. intros A m P. exact (returns_sound ins ig A m s sg P). Qed.

Theorem C05_mul : forall x y, returns (mul x y) s sg (fun r sg' => rv r sg' = v x * v y).
Proof. exact (mul_value ins ig s sg I). Qed.
Theorem C05_lt : forall x y, returns (lt c x y) s sg (fun r sg' => rv r sg' = b2z (v x <? v y)).
Proof. exact (lt_value ins ig c s sg I Chk). Qed.
Theorem C05_le : forall x y, returns (le c x y) s sg (fun r sg' => rv r sg' = b2z (v x <=? v y)).
Proof. exact (le_value ins ig c s sg I Chk). Qed.
Theorem C05_gt : forall x y, returns (gt c x y) s sg (fun r sg' => rv r sg' = b2z (v y <? v x)).
Proof. exact (gt_value ins ig c s sg I Chk). Qed.
Theorem C05_ge : forall x y, returns (ge c x y) s sg (fun r sg' => rv r sg' = b2z (v y <=? v x)).
Proof. exact (ge_value ins ig c s sg I Chk). Qed.
Theorem C05_eq : forall x y, returns (eq x y) s sg (fun r sg' => rv r sg' = b2z (v x =? v y)).
Proof. exact (eq_value ins ig (field_ok_prime p Hp) s sg I). Qed.
Theorem C05_ne : forall x y, returns (ne x y) s sg (fun r sg' => rv r sg' = b2z (negb (v x =? v y))).
Proof. exact (ne_value ins ig (field_ok_prime p Hp) s sg I). Qed.
Theorem C05_truediv : forall x y, returns (truediv x y) s sg (fun r sg' => rv r sg' = v x / v y /\ v x mod v y = 0 /\ v y <> 0).
Proof. exact (truediv_value ins ig s sg I Chk). Qed.
Theorem C05_divmod : forall x y, returns (divmod c x y) s sg (fun qr sg' => rv (fst qr) sg' = v x / v y /\ rv (snd qr) sg' = v x mod v y).
Proof. exact (divmod_value ins ig c s sg I). Qed.
Theorem C05_to_bits : forall x k, returns (to_bits x k) s sg (fun bs sg' => map (fun b => rv b sg') bs = map (fun j => Bits.pybit (v x) j) (seq 0 k)).
Proof. exact (to_bits_value ins ig s sg I). Qed.
Theorem C05_select : forall cnd t f, returns (ite_lc cnd t f) s sg (fun r sg' => rv r sg' = if v cnd =? 1 then v t else if v cnd =? 0 then v f else v f + v cnd * (v t - v f)).
Proof. exact (select_value ins ig s sg I). Qed.

(* ---- the same at the level of the Python operators (operator dispatch included) ---- *)
Local Notation isb := (OpValues.is_bool ins ig).
Local Notation islc := (OpValues.is_lc ins ig).
Theorem C05_op_lt : forall x y, returns (pyop c OLt (PLC x) (PLC y)) s sg (isb (fun r => r = b2z (v x <? v y))).
Proof. exact (op_lt ins ig c s sg I Chk). Qed.
Theorem C05_op_le : forall x y, returns (pyop c OLe (PLC x) (PLC y)) s sg (isb (fun r => r = b2z (v x <=? v y))).
Proof. exact (op_le ins ig c s sg I Chk). Qed.
Theorem C05_op_eq : forall x y, returns (pyop c OEq (PLC x) (PLC y)) s sg (isb (fun r => r = b2z (v x =? v y))).
Proof. exact (op_eq ins ig (field_ok_prime p Hp) c s sg I). Qed.
Theorem C05_op_mul : forall x y, returns (pyop c OMul (PLC x) (PLC y)) s sg (islc (fun r => r = v x * v y)).
Proof. exact (op_mul ins ig c s sg I). Qed.
Theorem C05_op_floordiv : forall x y, returns (pyop c OFloorDiv (PLC x) (PLC y)) s sg (islc (fun r => r = v x / v y)).
Proof. exact (op_floordiv ins ig c s sg I). Qed.
Theorem C05_op_mod : forall x y, returns (pyop c OMod (PLC x) (PLC y)) s sg (islc (fun r => r = v x mod v y)).
Proof. exact (op_mod ins ig c s sg I). Qed.
Theorem C05_op_lt_secret_int : forall x k, returns (pyop c OLt (PLC x) (PInt k)) s sg (isb (fun r => r = b2z (v x <? k))).
Proof. exact (op_lt_int_right ins ig c s sg I Chk). Qed.
Theorem C05_op_lt_int_secret : forall k y, returns (pyop c OLt (PInt k) (PLC y)) s sg (isb (fun r => r = b2z (k <? v y))).
Proof. exact (op_lt_int_left ins ig c s sg I Chk). Qed.
Theorem C05_op_floordiv_secret_int : forall x k, returns (pyop c OFloorDiv (PLC x) (PInt k)) s sg (islc (fun r => r = v x / k)).
Proof. exact (op_floordiv_int ins ig c s sg I). Qed.
Theorem C05_op_add : forall x y, returns (pyop c OAdd (PLC x) (PLC y)) s sg (islc (fun r => r = v x + v y)).
Proof. first [exact (op_add ins ig c s sg)|exact (op_add ins ig c s sg I)]. Qed.
Theorem C05_op_sub : forall x y, returns (pyop c OSub (PLC x) (PLC y)) s sg (islc (fun r => r = v x - v y)).
Proof. first [exact (op_sub ins ig c s sg)|exact (op_sub ins ig c s sg I)]. Qed.
Theorem C05_op_add_secret_int : forall x k, returns (pyop c OAdd (PLC x) (PInt k)) s sg (islc (fun r => r = v x + k)).
Proof. first [exact (op_add_int ins ig c s sg)|exact (op_add_int ins ig c s sg I)]. Qed.
Theorem C05_op_add_int_secret : forall k x, returns (pyop c OAdd (PInt k) (PLC x)) s sg (islc (fun r => r = k + v x)).
Proof. first [exact (op_radd_int ins ig c s sg)|exact (op_radd_int ins ig c s sg I)]. Qed.
Theorem C05_op_sub_secret_int : forall x k, returns (pyop c OSub (PLC x) (PInt k)) s sg (islc (fun r => r = v x - k)).
Proof. first [exact (op_sub_int ins ig c s sg)|exact (op_sub_int ins ig c s sg I)]. Qed.
Theorem C05_op_sub_int_secret : forall k x, returns (pyop c OSub (PInt k) (PLC x)) s sg (islc (fun r => r = k - v x)).
Proof. first [exact (op_rsub_int ins ig c s sg)|exact (op_rsub_int ins ig c s sg I)]. Qed.
Theorem C05_op_mul_secret_int : forall x k, returns (pyop c OMul (PLC x) (PInt k)) s sg (islc (fun r => r = v x * k)).
Proof. first [exact (op_mul_int ins ig c s sg)|exact (op_mul_int ins ig c s sg I)]. Qed.
Theorem C05_op_mul_int_secret : forall k x, returns (pyop c OMul (PInt k) (PLC x)) s sg (islc (fun r => r = k * v x)).
Proof. first [exact (op_rmul_int ins ig c s sg)|exact (op_rmul_int ins ig c s sg I)]. Qed.
Theorem C05_op_neg : forall x, returns (unop c (pyop c) UNeg (PLC x)) s sg (islc (fun r => r = - v x)).
Proof. first [exact (op_neg ins ig c s sg)|exact (op_neg ins ig c s sg I)]. Qed.
Theorem C05_op_gt : forall x y, returns (pyop c OGt (PLC x) (PLC y)) s sg (isb (fun r => r = b2z (v y <? v x))).
Proof. exact (op_gt ins ig c s sg I Chk). Qed.
Theorem C05_op_ge : forall x y, returns (pyop c OGe (PLC x) (PLC y)) s sg (isb (fun r => r = b2z (v y <=? v x))).
Proof. exact (op_ge ins ig c s sg I Chk). Qed.
Theorem C05_op_ne : forall x y, returns (pyop c ONe (PLC x) (PLC y)) s sg (isb (fun r => r = b2z (negb (v x =? v y)))).
Proof. exact (op_ne ins ig (field_ok_prime p Hp) c s sg I). Qed.
Theorem C05_op_eq_secret_int : forall x k, returns (pyop c OEq (PLC x) (PInt k)) s sg (isb (fun r => r = b2z (v x =? k))).
Proof. exact (op_eq_int ins ig (field_ok_prime p Hp) c s sg I). Qed.
Theorem C05_op_truediv : forall x y, returns (pyop c OTrueDiv (PLC x) (PLC y)) s sg (islc (fun r => r = v x / v y /\ v x mod v y = 0 /\ v y <> 0)).
Proof. exact (op_truediv ins ig c s sg I Chk). Qed.
(* secret booleans: on 0/1 values a*b, a+b-a*b, a+b-2ab, 1-a are Python's and, or, xor, not *)
Theorem C05_op_bool_and : forall o o' a b, returns (pyop c OAnd (PBool o a) (PBool o' b)) s sg (isb (fun r => r = v a * v b)).
Proof. exact (op_bool_and ins ig c s sg I). Qed.
Theorem C05_op_bool_or : forall o o' a b, returns (pyop c OOr (PBool o a) (PBool o' b)) s sg (isb (fun r => r = v a + v b - v a * v b)).
Proof. exact (op_bool_or ins ig c s sg I). Qed.
Theorem C05_op_bool_xor : forall o o' a b, returns (pyop c OXor (PBool o a) (PBool o' b)) s sg (isb (fun r => r = v a + v b - 2 * v a * v b)).
Proof. exact (op_bool_xor ins ig c s sg I). Qed.
Theorem C05_op_bool_not : forall o a, returns (unop c (pyop c) UInvert (PBool o a)) s sg (isb (fun r => r = 1 - v a)).
Proof. first [exact (op_bool_not ins ig c s sg)|exact (op_bool_not ins ig c s sg I)]. Qed.
(* bitwise operators and right shift on whole numbers: Python's result on the operands reduced to bitlength bits, i.e. Python's
   x & y, x | y, x ^ y, x >> k for operands in [0, 2^bitlength) *)
Theorem C05_op_and : forall x y, vscopedb (npub s) (npriv s) (sval y) = true -> returns (pyop c OAnd (PLC x) (PLC y)) s sg (islc (fun r => r = Z.land (v x) (v y) mod 2 ^ Z.of_nat (nbits c))).
Proof. exact (op_and ins ig c s sg I). Qed.
Theorem C05_op_or : forall x y, vscopedb (npub s) (npriv s) (sval y) = true -> returns (pyop c OOr (PLC x) (PLC y)) s sg (islc (fun r => r = Z.lor (v x) (v y) mod 2 ^ Z.of_nat (nbits c))).
Proof. exact (op_or ins ig c s sg I). Qed.
Theorem C05_op_xor : forall x y, vscopedb (npub s) (npriv s) (sval y) = true -> returns (pyop c OXor (PLC x) (PLC y)) s sg (islc (fun r => r = Z.lxor (v x) (v y) mod 2 ^ Z.of_nat (nbits c))).
Proof. exact (op_xor ins ig c s sg I). Qed.
Theorem C05_op_rshift_secret_int : forall x k, 0 <= k -> returns (pyop c ORshift (PLC x) (PInt k)) s sg
  (fun r sg' => match r with
                | PLC q => Sym.veval p ins ig sg' (sval q) = Z.shiftr (v x) k mod 2 ^ Z.of_nat (nbits c - Z.to_nat k)
                | PInt z => z = 0 /\ (nbits c <= Z.to_nat k)%nat
                | _ => False end).
Proof. exact (op_rshift_int ins ig c s sg I). Qed.
(* x ** k with a public exponent 1 <= k <= 400 (k - 1 multiplication gadgets) is the integer power; x << k with a public shift is x * 2^k *)
Theorem C05_op_pow_secret_int : forall x k, NoRaiseGadgets.sc s x -> 1 <= k <= 400 -> returns (pyop c OPow (PLC x) (PInt k)) s sg (islc (fun r => r = v x ^ k)).
Proof. exact (PowValues.op_pow_int ins ig c s sg I). Qed.
Theorem C05_op_lshift_secret_int : forall x k, 0 <= k <= 100000 -> returns (pyop c OLshift (PLC x) (PInt k)) s sg (islc (fun r => r = v x * 2 ^ k)).
Proof. exact (PowValues.op_lshift_int ins ig c s sg). Qed.
End C05.
Print Assumptions C05_op_pow_secret_int.
Print Assumptions C05_op_lshift_secret_int.

(* ---- inside the documented domain the operations do not raise (and return the Python value) ---- *)
Section C05_domain.
Variable p : Z.
Hypothesis Hp : prime p.
Variables (ins : list Z) (ig : bool) (c : cfg) (s : @Gadgets.gst p) (sg : store).
Hypothesis Hu : NoRaiseGadgets.U ins ig s sg.         (* invariant + no active guard: error checking is on *)
Local Notation v x := (Sym.veval p ins ig sg (sval x)).
Local Notation rv r sg' := (Sym.veval p ins ig sg' (sval r)).
Local Notation total := (NoRaise.nr ins ig).
Local Notation sc := (NoRaiseGadgets.sc s).
Local Notation b2z b := (if b then 1 else 0).
Local Notation n := (Z.of_nat (nbits c)).

Theorem C05_in_domain_meaning : forall A (m : Gadgets.G A) Q, total m s sg Q ->
  forall t, st t = sg -> raised t = None -> forall r s' cs, run m s = (r, s', cs) ->
  raised (fold_left (Sym.step p ins ig) cs t) = None /\ exists a, r = inl a /\ Q a s' (st (fold_left (Sym.step p ins ig) cs t)).
Proof. intros A m Q. exact (nr_sound ins ig false A m s sg Q). Qed.
Theorem C05_lt_in_domain : forall x y, sc x -> sc y -> Z.abs (v y - v x - 1) < 2 ^ n -> total (lt c x y) s sg (fun r _ sg' => rv r sg' = b2z (v x <? v y)).
Proof. exact (lt_total ins ig c s sg Hu). Qed.
Theorem C05_le_in_domain : forall x y, sc x -> sc y -> Z.abs (v y - v x) < 2 ^ n -> total (le c x y) s sg (fun r _ sg' => rv r sg' = b2z (v x <=? v y)).
Proof. exact (le_total ins ig c s sg Hu). Qed.
Theorem C05_gt_in_domain : forall x y, sc x -> sc y -> Z.abs (v x - v y - 1) < 2 ^ n -> total (gt c x y) s sg (fun r _ sg' => rv r sg' = b2z (v y <? v x)).
Proof. exact (gt_total ins ig c s sg Hu). Qed.
Theorem C05_ge_in_domain : forall x y, sc x -> sc y -> Z.abs (v x - v y) < 2 ^ n -> total (ge c x y) s sg (fun r _ sg' => rv r sg' = b2z (v y <=? v x)).
Proof. exact (ge_total ins ig c s sg Hu). Qed.
Theorem C05_eq_in_domain : forall x y, sc x -> sc y -> (v x = v y \/ (v x - v y) mod p <> 0) -> total (eq x y) s sg (fun r _ sg' => rv r sg' = b2z (v x =? v y)).
Proof. exact (eq_total ins ig (field_ok_prime p Hp) s sg Hu). Qed.
Theorem C05_mul_in_domain : forall x y, sc x -> sc y -> total (mul x y) s sg (fun r _ sg' => rv r sg' = v x * v y).
Proof. exact (mul_total ins ig s sg Hu). Qed.
Theorem C05_to_bits_in_domain : forall x k, sc x -> 0 <= v x < 2 ^ Z.of_nat k ->
  total (to_bits x k) s sg (fun bs _ sg' => map (fun b => rv b sg') bs = map (fun j => Bits.pybit (v x) j) (seq 0 k)).
Proof. exact (to_bits_total ins ig s sg Hu). Qed.
End C05_domain.

(* non-vacuity: the hypotheses hold in the initial state of every run with error checking on, and the model computes
   Python's floor division / modulo for negative operands *)
Example C05_initial_state : forall p ins, WpBase.Inv (p:=p) ins false (init_gst (p:=p)) {| pubs := []; privs := [] |} /\ Sym.beval p ins false {| pubs := []; privs := [] |} (ignore (init_gst (p:=p))) = false.
Proof. intros p ins. split; [apply Inv_init|reflexivity]. Qed.
Example C05_example :
  let t := model_run (p:=65537) {| bitlength := 4%nat; resolution := 0 |}
             [SInput 0 IPriv 0; SInput 1 IPriv 1; SBin 2 ODivmod 0 1; SBin 3 OLt 0 1; SBin 4 OMul 0 1] [-7; 2] false in
  raised t = None /\ map (fun o => snd (fst o)) (outs t) = [-7; 2; 2; -4; 1; 1; -14; 0; 0].
Proof. vm_compute. split; reflexivity. Qed.

Print Assumptions C05_op_lt.
Print Assumptions C05_op_and.
Print Assumptions C05_op_or.
Print Assumptions C05_op_xor.
Print Assumptions C05_op_rshift_secret_int.
Print Assumptions C05_op_bool_and.
Print Assumptions C05_op_bool_or.
Print Assumptions C05_op_bool_xor.
Print Assumptions C05_op_bool_not.
Print Assumptions C05_op_add.
Print Assumptions C05_op_sub.
Print Assumptions C05_op_add_secret_int.
Print Assumptions C05_op_add_int_secret.
Print Assumptions C05_op_sub_secret_int.
Print Assumptions C05_op_sub_int_secret.
Print Assumptions C05_op_mul_secret_int.
Print Assumptions C05_op_mul_int_secret.
Print Assumptions C05_op_neg.
Print Assumptions C05_op_gt.
Print Assumptions C05_op_ge.
Print Assumptions C05_op_ne.
Print Assumptions C05_op_eq_secret_int.
Print Assumptions C05_op_truediv.
Print Assumptions C05_op_lt_int_secret.
Print Assumptions C05_lt_in_domain.
Print Assumptions C05_eq_in_domain.
Print Assumptions C05_lt.
Print Assumptions C05_eq.
Print Assumptions C05_divmod.
Print Assumptions C05_truediv.
Print Assumptions C05_to_bits.
