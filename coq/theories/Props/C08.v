(* C08 — guard state is restored on every exit path and nests as a conjunction.
   The generator monad is free over the library's primitive effects; runtime.guarded and the lazily evaluated
   branches of if_then_else are [Local] regions (try/finally), the only way level-false code (all of
   runtime.py, boolean.py, fixedpoint.py, if_then_else) can change the globals.  By ONE induction over that
   monad (Proofs/Frame.v), for EVERY computation, every nesting depth, every guard value:
     - on return the guard, the error-suppression mode, LinComb.ONE and the unwind record are exactly those at
       entry;
     - every raise that can happen inside reports, once propagated, the globals of the outermost entry state.
   Program level: for every program that uses neither ignore_errors() nor the block API, on every input.
   Block API (Proofs/BlockFrame.v): EVERY program without ignore_errors() -- block-API statements at any nesting included -- that
   completes leaves the guard, the error-suppression mode and LinComb.ONE exactly as it found them and no branch context open
   (C08_block_programs_restore_on_completion: the saved triples of the open contexts form a chain back to the base triple).
   NOT covered by a theorem (decided on the real code by the harness probes): that the effective guard VALUE
   inside nested regions is the product of the enclosing conditions (PARTIAL there); exceptions inside block-API
   regions (_if/_while), which have no try/finally -- recorded as a known finding when observed. *)
From Coq Require Import ZArith List Bool.
From PySnark.Model Require Import Lc Sym Gadgets Api Prog.
From PySnark.Proofs Require Import Meta Frame ProgFrame Wp WpBase GadgetsOK Values ProgOK BlockFrame.
Import ListNotations.
Open Scope Z_scope.

(* any level-false computation m (a gadget, an operator dispatch, a guarded body with nested guarded regions ...) *)
Theorem C08_restored_on_return : forall (p : Z) (A : Type) (m : M (p:=p) false A) s r s' cs,
  run m s = (r, s', cs) -> cur_triple s' = cur_triple s /\ unw s' = unw s.
Proof. intros p A m s r s' cs R. destruct (frame_unwind A m s r s' cs R) as (T & U & _). split; assumption. Qed.

Theorem C08_restored_on_exception : forall (p : Z) (A : Type) (m : M (p:=p) false A) s r s' cs,
  run m s = (r, s', cs) -> Forall (is_raise_with (unw_triple s)) cs.
Proof. intros p A m s r s' cs R. exact (proj2 (proj2 (frame_unwind A m s r s' cs R))). Qed.

(* whole programs: whatever exception ends the run, at whatever statement and nesting depth, the globals observed afterwards
   are (no guard, the initial error-suppression flag, the constant one) *)
Theorem C08_program_exception : forall (p : Z) (c : cfg) (pr : list stmt) (ins : list Z) (ig : bool) e g,
  forallb plain_stmt pr = true -> raised (model_run (p:=p) c pr ins ig) = Some (e, g) -> g = (None, ig, [(0, 1)]).
Proof. intros p c. exact (program_exception_restores c). Qed.
Theorem C08_program_return : forall (p : Z) (c : cfg) (pr : list stmt) r s cs,
  forallb plain_stmt pr = true -> run (gen_stmts (p:=p) c pr bst0) init_gst = (r, s, cs) ->
  cur_triple s = cur_triple (init_gst (p:=p)) /\ unw s = None.
Proof. intros p c pr r s cs H R. destruct (program_globals_restored c pr r s cs H R) as (T & U & _). split; assumption. Qed.

(* nesting = conjunction: entering a region with condition cnd under an active guard g0 (whose value is boolean) makes the
   effective guard g0 * cnd -- for every generator state satisfying the invariant, all values (when error checking is on the
   condition must be boolean, otherwise add_guard raises; when it is suppressed the enclosing guard is 0 and so is the result) *)
Theorem C08_nested_guard_is_the_conjunction : forall (p : Z) ins ig (c : cfg) (s : @Gadgets.gst p) sg (cnd g0 : Sym.slc p),
  WpBase.Inv ins ig s sg -> guard s = Some g0 -> (0 < nbits c)%nat ->
  (Sym.veval p ins ig sg (sval g0) = 0 \/ Sym.veval p ins ig sg (sval g0) = 1) ->
  Values.returns ins ig (new_guard c cnd) s sg
    (fun gi sg' => Sym.veval p ins ig sg' (sval (fst gi)) = Sym.veval p ins ig sg (sval g0) * Sym.veval p ins ig sg (sval cnd)).
Proof.
  intros p ins ig c s sg cnd g0 I G Hn Hb. unfold Values.returns. apply (new_guard_conj_wp ins ig c cnd g0 s sg _ I G Hn Hb).
  intros gi s' sg' _ V _. exact V.
Qed.
(* and inside any region: error suppression on implies that the effective guard evaluates to 0 (the invariant every gadget
   proof relies on; it is established by new_guard and preserved by every computation: GadgetsOK.guarded_OK) *)
Theorem C08_suppression_only_under_a_false_guard : forall (p : Z) ins ig (s : @Gadgets.gst p) sg g,
  WpBase.Inv ins ig s sg -> guard s = Some g -> Sym.beval p ins ig sg (ignore s) = true -> Sym.veval p ins ig sg (sval g) = 0.
Proof. intros p ins ig s sg g (_ & _ & H) G B. rewrite G in H. exact (proj1 H B). Qed.

(* non-vacuity: three nested regions, the innermost aborted by a failing assertion *)
Example C08_example :
  let pr := [SInput 0 IPriv 0; SInput 1 IPriv 1; SBin 2 OLt 0 1;
             SGuarded 2 [SGuarded 0 [SIteLazy 5 2 [SMeth 3 MAssertZero 1 []] 0 [SProbe] 1]]] in
  forallb plain_stmt pr = true /\
  raised (model_run (p:=65537) {| bitlength := 4%nat; resolution := 0 |} pr [1; 3] false) = Some (AssertionError, (None, false, [(0, 1)])).
Proof. vm_compute. split; reflexivity. Qed.

(* the block API: _if / _elif / _else / _endif, _while / _breakif / _endwhile, _range / _endfor, at any nesting, mixed with all
   other statements.  A program whose trace generation completes ends in the initial guard state with no context left open. *)
Theorem C08_block_programs_restore_on_completion : forall (p : Z) (c : cfg) (pr : list stmt) b' s' cs, forallb noign pr = true ->
  run (gen_stmts c pr bst0) (init_gst (p:=p)) = (inl b', s', cs) ->
  cur_triple s' = cur_triple (init_gst (p:=p)) /\ bstack b' = [].
Proof. intros p c. exact (block_program_restores c). Qed.

(* non-vacuity: generation of a program with an _if block inside a while loop with a break completes *)
Example C08_block_example :
  let pr := [SInput 0 IPriv 0; SInput 1 IPrivBool 1; SBSet 7 0;
             SOWhile [SBin 5 OLt 0 0] 5 2 [SOIf 1 [SBin 2 OMul 0 0; SBSet 7 2] [] None; SBreakIf 1];
             SBGet 3 7] in
  exists b' s' cs, run (gen_stmts (p:=65537) {| bitlength := 8%nat; resolution := 0 |} pr bst0) (init_gst (p:=65537)) = (inl b', s', cs) /\ forallb noign pr = true.
Proof. cbv zeta. eexists. eexists. eexists. split; [vm_compute; reflexivity|reflexivity]. Qed.

Print Assumptions C08_restored_on_return.
Print Assumptions C08_block_programs_restore_on_completion.
Print Assumptions C08_restored_on_exception.
Print Assumptions C08_program_exception.
Print Assumptions C08_nested_guard_is_the_conjunction.
