(* C13 — Backend linear combinations: faithful immutable algebra over a prime field.
   Property theorems only; proofs live in Proofs/LcProofs.v, Base/Primes.v, Base/Fermat.v. *)
From Coq Require Import ZArith List Znumtheory.
From PySnark Require Import Generated.
From PySnark.Base Require Import FieldZ Primes.
From PySnark.Model Require Import Lc.
From PySnark.Proofs Require Import LcProofs InvertProofs.
Import ListNotations.
Open Scope Z_scope.

(* spec literals: scalar-field orders of the curves (BN254/alt_bn128, BLS12-381, Curve25519 group order l) *)
Definition r_bn128 : Z := 21888242871839275222246405745257275088548364400416034343698204186575808495617.
Definition r_bls12_381 : Z := 52435875175126190479447740508185965837690552500527637822603658699938581184513.
Definition l_25519 : Z := 2^252 + 27742317777372353535851937790883648493.

(* dict-style classes (snarkjs, zkinterface family): exact over Z, hence modulo every p *)
Theorem C13_dict_algebra : forall (w : var -> Z) (e : lcexpr), w 0 = 1 -> eval w (build e) = sem w e.
Proof. exact build_faithful. Qed.
Theorem C13_dict_keys_unique : forall e, NoDup (map fst (build e)).
Proof. exact wf_build. Qed.
(* qaptools Sig: congruent modulo the field prime *)
Theorem C13_sig_algebra : forall p (w : var -> Z) (e : lcexpr), 0 < p -> feq p (sg_eval w (sg_build p e)) (sem w e).
Proof. intros p w e Hp. exact (sg_build_faithful p Hp w e). Qed.

(* the moduli the source declares *on this run* are the curve orders, and they are prime *)
Theorem C13_moduli_are_curve_orders :
  snarkjsp = r_bn128 /\ zkif_modulus = r_bn128 /\ vc_p = r_bn128 /\
  bellman_modulus = r_bls12_381 /\ bulletproofs_modulus = l_25519.
Proof. repeat split; vm_compute; reflexivity. Qed.
Theorem C13_moduli_prime :
  prime snarkjsp /\ prime zkif_modulus /\ prime vc_p /\ prime bellman_modulus /\ prime bulletproofs_modulus.
Proof. exact (conj snarkjsp_prime (conj zkif_modulus_prime (conj vc_p_prime (conj bellman_modulus_prime bulletproofs_modulus_prime)))). Qed.

(* the inverse function (pure-Python branch of pysnark.gmpy.invert) *)
Theorem C13_inverse : forall p x, prime p -> x mod p <> 0 ->
  exists y, invert x p = Some y /\ (x * y) mod p = 1 /\ 0 < y < p.
Proof. exact invert_correct. Qed.
Theorem C13_inverse_zero_raises : forall p x, 2 < p -> x mod p = 0 -> invert x p = None.
Proof. exact invert_zero. Qed.

(* non-vacuity: a concrete tree with 0 / negative / above-the-prime scalars, negative and unreduced inverse arguments *)
Example C13_example :
  build (LSub (LScale (LAdd (LVar (-1)) (LVar 2)) (snarkjsp + 5)) (LAdd (LNeg (LVar (-1))) (LScale LOne 0)))
  = [(-1, snarkjsp + 5 + 1); (2, snarkjsp + 5); (0, 0)]
  /\ invert (-7) snarkjsp = Some 18761351033005093047639776353077664361612883771785172294598460731350692996243
  /\ invert (snarkjsp + 3) snarkjsp = invert 3 snarkjsp.
Proof. vm_compute. repeat split; reflexivity. Qed.

Print Assumptions C13_dict_algebra.
Print Assumptions C13_dict_keys_unique.
Print Assumptions C13_sig_algebra.
Print Assumptions C13_moduli_are_curve_orders.
Print Assumptions C13_moduli_prime.
Print Assumptions C13_inverse.
Print Assumptions C13_inverse_zero_raises.
