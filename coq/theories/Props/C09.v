(* C09 — oblivious if/elif/else, while and for compute what native control flow computes.
   PARTIAL.  Proved (Proofs/BranchCore.v) about the merge discipline of pysnark.branching, transcribed at the level of
   values (BranchContext.exit = selection on the branch condition; IfContext's running "no branch taken yet" condition;
   WhileContext's accumulated continuation condition, break = and-not; _range = while ix != stop, unrolled max times):
     - for ALL nestings of if/elif/else chains (any number of _elif), capped while loops with a break point and for loops
       with a secret bound below the public maximum, all assignments inside them and all values of the secret conditions
       and bounds: the oblivious execution under a true guard ends with the variable values of the native execution;
     - a variable that a construct does not assign keeps its value, whatever the conditions and the enclosing guard.
   At the level of the model: the merge primitive -- branching.if_then_else on the branch condition, through the operator
   dispatch -- returns backup + cond * (value - backup), i.e. the core's [merge] on 0/1 conditions (C09_merge_primitive), and
   the constraints of every block-API program are satisfied by the recorded witness (C09_constraints_satisfied = C01).
   The whole merge at block exit (Prog.merge_bak = BranchContext.exit's loop over the variables assigned in the block) is proved
   for variables holding secret integers: afterwards every such variable holds backup + cond * (value - backup), every other
   variable of the dictionary is untouched (C09_merge_at_block_exit; it assumes Python's "a is b implies a == b" for the
   identity shortcut of if_then_else).
   Not proved in Coq: that Model/Prog.v's model of the block API (gen_top / ctx_enter / ctx_exit / ctx_while, which also
   carries the constraints, the guards, object identities and the nodefvals bookkeeping) refines this value-level core;
   that model is tied to the code by the trace correspondence, and the check compares every generated program with a
   native-control-flow twin, evaluates the constraints on the witness and compares shapes across branch choices. *)
From Coq Require Import ZArith List Bool Lia Znumtheory.
From PySnark.Base Require Import FieldZ.
From PySnark.Model Require Import Lc Sym Good Gadgets Api Prog.
From PySnark.Proofs Require Import BranchCore Meta FieldOk Wp WpBase GadgetsOK Values OpValues ProgOK Complete MergeValues.
Import ListNotations.
Open Scope Z_scope.

Theorem C09_oblivious_equals_native : forall (V : Type) (V_eq_dec : forall x y : V, {x = y} + {x <> y}) (junk : V -> (V -> Z) -> Z) (c : cmd V),
  ok V c -> forall s, oexec V V_eq_dec junk c true s = nexec V V_eq_dec c s.
Proof. exact oexec_refines. Qed.
Theorem C09_untouched_variables_keep_their_value : forall (V : Type) (V_eq_dec : forall x y : V, {x = y} + {x <> y}) (junk : V -> (V -> Z) -> Z) (c : cmd V) g s x,
  ~ assigns V c x -> oexec V V_eq_dec junk c g s x = s x.
Proof. exact untouched. Qed.

(* the merge primitive of BranchContext.exit in the model: selection between the value after the branch and the backup *)
Theorem C09_merge_primitive : forall (p : Z) ins ig (c : cfg) (s : @Gadgets.gst p) sg cb t f o, WpBase.Inv ins ig s sg ->
  same_val (PLC t) (PLC f) = false ->
  Values.returns ins ig (if_then_else c (pyop c) (PBool o cb) (PLC t) (PLC f)) s sg
    (OpValues.is_lc ins ig (fun r => r = Sym.veval p ins ig sg (sval f) + Sym.veval p ins ig sg (sval cb) * (Sym.veval p ins ig sg (sval t) - Sym.veval p ins ig sg (sval f)))).
Proof. intros p ins ig c s sg cb t f o I H. exact (op_select ins ig c s sg I cb t f o H). Qed.
(* BranchContext.exit in the model: the merge of ALL variables assigned in a block (secret integers), for every value of the
   branch condition wire cb, every generator state satisfying the invariant, every store.  [wp ... Q] for every Q implied by
   the look-up facts = every run of the merge (Wp.wp_sound) ends in a state with those facts. *)
Theorem C09_merge_at_block_exit : forall (p : Z) ins ig (c : cfg) o cb (bak : Prog.bdict (p:=p)) (s0 : @Gadgets.gst p) sg0,
  WpBase.Inv ins ig s0 sg0 -> sc s0 cb ->
  forall (new : list (nat * Sym.slc p)) (acc : Prog.bdict (p:=p)) (Q : Prog.bdict (p:=p) -> @Gadgets.gst p -> Sym.store -> Prop),
  NoDup (map fst new) -> Forall (pre ins ig bak s0 sg0) new ->
  (forall r s' sg', WpBase.Inv ins ig s' sg' -> ext sg0 sg' ->
     (forall nm t, In (nm, t) new -> exists x f, dget r nm = Some (PLC x) /\ dget bak nm = Some (PLC f) /\ sc s' x /\
        Sym.veval p ins ig sg' (sval x) = sel (Sym.veval p ins ig sg0 (sval cb)) (Sym.veval p ins ig sg0 (sval t)) (Sym.veval p ins ig sg0 (sval f))) ->
     (forall nm, ~ In nm (map fst new) -> dget r nm = dget acc nm) -> Q r s' sg') ->
  Wp.wp ins ig (merge_bak c (PBool o cb) bak (map (fun nt => (fst nt, PLC (snd nt))) new) acc) s0 sg0 Q.
Proof. intros p ins ig c o cb bak s0 sg0 I0 Scb new acc Q. exact (merge_bak_lookup ins ig c o cb bak s0 sg0 I0 Scb new acc Q). Qed.
(* BranchContext.exit as a whole for an _if block whose variables all existed before the block: the guard state saved on entry is
   restored, then every variable is merged on the block condition (secret-integer variables; [pre] as in the previous theorem) *)
Theorem C09_block_exit_restores_and_merges : forall (p : Z), prime p -> forall ins ig (c : cfg) (cx : bctx (p:=p)) o cb (new : list (nat * Sym.slc p))
  (s : @Gadgets.gst p) sg (Q : Prog.bdict (p:=p) * Prog.bdict (p:=p) -> @Gadgets.gst p -> Sym.store -> Prop),
  WpBase.Inv ins ig s sg -> tvalid ins ig (borig cx) s sg -> bnodef cx = None -> bk cx = KIf -> bcond cx = PBool o cb -> sc s cb ->
  NoDup (map fst new) -> Forall (pre ins ig (bbak cx) s sg) new ->
  (forall r s' sg', WpBase.Inv ins ig s' sg' -> ext sg sg' ->
     (forall nm t, In (nm, t) new -> exists x f, dget r nm = Some (PLC x) /\ dget (bbak cx) nm = Some (PLC f) /\ sc s' x /\
        Sym.veval p ins ig sg' (sval x) = sel (Sym.veval p ins ig sg (sval cb)) (Sym.veval p ins ig sg (sval t)) (Sym.veval p ins ig sg (sval f))) ->
     Q (r, []) s' sg') ->
  Wp.wp ins ig (ctx_exit c cx (map (fun nt => (fst nt, PLC (snd nt))) new)) s sg Q.
Proof. intros p Hp ins ig c. exact (ctx_exit_value ins ig c). Qed.
(* the selection is the native choice on 0/1 conditions *)
Theorem C09_selection_is_native_choice : forall t f, sel 1 t f = t /\ sel 0 t f = f.
Proof. intros t f. split; [apply sel_1|apply sel_0]. Qed.
(* the constraints emitted by block-API programs are satisfied by the recorded witness, whichever branches are taken *)
Theorem C09_constraints_satisfied : forall (p : Z) (c : cfg) (pr : list stmt) (ins : list Z),
  prime p -> forallb noign pr = true ->
  let t := model_run (p:=p) c pr ins false in Forall (holds (p:=p) (wval (st t))) (cons t).
Proof. intros p c pr ins Hp N. exact (program_complete (field_ok_prime p Hp) c pr ins N). Qed.

(* non-vacuity: a chain with two _elif and an _else inside a for loop with a secret bound, followed by a while with a break *)
Definition ex_prog : cmd nat :=
  Seq nat (For nat (fun s => Z.min 3 (Z.max 0 (s 0%nat))) 3 (fun i =>
            Cond nat (CElif nat (fun s => s 1%nat =? 0) (Assign nat 2%nat (fun s => s 2%nat + 10))
                     (CElif nat (fun s => s 1%nat =? 1) (Assign nat 2%nat (fun s => s 2%nat + 20))
                     (CElif nat (fun s => s 1%nat =? 2) (Assign nat 1%nat (fun _ => 0))
                     (CElse nat (Assign nat 2%nat (fun s => s 2%nat + Z.of_nat i))))))))
          (While nat (fun s => s 2%nat <? 100) 4 (Assign nat 2%nat (fun s => 2 * s 2%nat)) (fun s => s 2%nat =? 44) (Assign nat 3%nat (fun s => s 3%nat + 1))).
Example C09_example :
  ok nat ex_prog /\
  let s0 : nat -> Z := fun x => match x with 0%nat => 2 | 1%nat => 2 | _ => 1 end in
  let s := oexec nat Nat.eq_dec (fun _ _ => 777) ex_prog true s0 in
  (s 1%nat, s 2%nat, s 3%nat) = (0, 44, 2).
Proof. split; [cbn; repeat split; lia|vm_compute; reflexivity]. Qed.

(* non-vacuity at the level of the model: x = 5; _.v = x; if _if(c): _.v = x*x; _endif(); read _.v  --  for both values of c *)
Example C09_model_example :
  let pr := [SInput 0 IPriv 0; SInput 1 IPrivBool 1; SBSet 7 0; SOIf 1 [SBin 2 OMul 0 0; SBSet 7 2] [] None; SBGet 3 7] in
  let run cv := model_run (p:=65537) {| bitlength := 8%nat; resolution := 0 |} pr [5; cv] false in
  (nth 3 (map (fun o => snd (fst o)) (outs (run 0))) 0, raised (run 0)) = (5, None) /\
  (nth 3 (map (fun o => snd (fst o)) (outs (run 1))) 0, raised (run 1)) = (25, None).
Proof. vm_compute. split; reflexivity. Qed.

Print Assumptions C09_oblivious_equals_native.
Print Assumptions C09_merge_primitive.
Print Assumptions C09_merge_at_block_exit.
Print Assumptions C09_block_exit_restores_and_merges.
Print Assumptions C09_untouched_variables_keep_their_value.
