(* C09 — oblivious if/elif/else, while and for compute what native control flow computes.
   PARTIAL.  Proved (Proofs/BranchCore.v) about the merge discipline of pysnark.branching, transcribed at the level of
   values (BranchContext.exit = selection on the branch condition; IfContext's running "no branch taken yet" condition;
   WhileContext's accumulated continuation condition, break = and-not; _range = while ix != stop, unrolled max times):
     - for ALL nestings of if/elif/else chains (any number of _elif), capped while loops with a break point and for loops
       with a secret bound below the public maximum, all assignments inside them and all values of the secret conditions
       and bounds: the oblivious execution under a true guard ends with the variable values of the native execution;
     - a variable that a construct does not assign keeps its value, whatever the conditions and the enclosing guard.
   At the level of the model: the merge primitive -- branching.if_then_else on the branch condition, through the operator
   dispatch -- returns backup + cond * (value - backup), i.e. the core's [merge] on 0/1 conditions (C09_merge_primitive), and
   the constraints of every block-API program are satisfied by the recorded witness (C09_constraints_satisfied = C01).
   The whole merge at block exit (Prog.merge_bak = BranchContext.exit's loop over the variables assigned in the block) is proved
   for variables holding secret integers: afterwards every such variable holds backup + cond * (value - backup), every other
   variable of the dictionary is untouched (C09_merge_at_block_exit; it assumes Python's "a is b implies a == b" for the
   identity shortcut of if_then_else).
   For the whole if-block of the model ( if _if(c): body ; _endif() ) there is a Hoare rule (C09_if_block_rule, any body) and its
   instance for a conditional assignment (C09_conditional_assignment).
   The rule for if / else is C09_if_else_block_rule.
   The rule for the while loop (with a loop invariant over the accumulated condition) is C09_while_loop_rule.
   _breakif: C09_breakif_rule.
   The for loop with a secret bound: C09_for_loop_rule.
   Chains with any number of _elif: C09_if_elif_chain_rule, C09_if_elif_else_chain_rule.
   Not proved in Coq: and variables holding other kinds than secret
   integers (the model of these -- ctx_while, nodefvals bookkeeping, object identities -- is compared with the code trace for trace);
   that model is tied to the code by the trace correspondence, and the check compares every generated program with a
   native-control-flow twin, evaluates the constraints on the witness and compares shapes across branch choices. *)
From Coq Require Import ZArith List Bool Lia Znumtheory.
From PySnark.Base Require Import FieldZ.
From PySnark.Model Require Import Lc Sym Good Gadgets Api Prog.
From PySnark.Proofs Require Import BranchCore Meta FieldOk Wp WpBase GadgetsOK Values OpValues ProgOK Complete MergeValues IfRule.
Import ListNotations.
Open Scope Z_scope.

Theorem C09_oblivious_equals_native : forall (V : Type) (V_eq_dec : forall x y : V, {x = y} + {x <> y}) (junk : V -> (V -> Z) -> Z) (c : cmd V),
  ok V c -> forall s, oexec V V_eq_dec junk c true s = nexec V V_eq_dec c s.
Proof. exact oexec_refines. Qed.
Theorem C09_untouched_variables_keep_their_value : forall (V : Type) (V_eq_dec : forall x y : V, {x = y} + {x <> y}) (junk : V -> (V -> Z) -> Z) (c : cmd V) g s x,
  ~ assigns V c x -> oexec V V_eq_dec junk c g s x = s x.
Proof. exact untouched. Qed.

(* the merge primitive of BranchContext.exit in the model: selection between the value after the branch and the backup *)
Theorem C09_merge_primitive : forall (p : Z) ins ig (c : cfg) (s : @Gadgets.gst p) sg cb t f o, WpBase.Inv ins ig s sg ->
  same_val (PLC t) (PLC f) = false ->
  Values.returns ins ig (if_then_else c (pyop c) (PBool o cb) (PLC t) (PLC f)) s sg
    (OpValues.is_lc ins ig (fun r => r = Sym.veval p ins ig sg (sval f) + Sym.veval p ins ig sg (sval cb) * (Sym.veval p ins ig sg (sval t) - Sym.veval p ins ig sg (sval f)))).
Proof. intros p ins ig c s sg cb t f o I H. exact (op_select ins ig c s sg I cb t f o H). Qed.
(* BranchContext.exit in the model: the merge of ALL variables assigned in a block (secret integers), for every value of the
   branch condition wire cb, every generator state satisfying the invariant, every store.  [wp ... Q] for every Q implied by
   the look-up facts = every run of the merge (Wp.wp_sound) ends in a state with those facts. *)
Theorem C09_merge_at_block_exit : forall (p : Z) ins ig (c : cfg) o cb (bak : Prog.bdict (p:=p)) (s0 : @Gadgets.gst p) sg0,
  WpBase.Inv ins ig s0 sg0 -> sc s0 cb ->
  forall (new : list (nat * Sym.slc p)) (acc : Prog.bdict (p:=p)) (Q : Prog.bdict (p:=p) -> @Gadgets.gst p -> Sym.store -> Prop),
  NoDup (map fst new) -> Forall (pre ins ig bak s0 sg0) new ->
  (forall r s' sg', WpBase.Inv ins ig s' sg' -> ext sg0 sg' ->
     (forall nm t, In (nm, t) new -> exists x f, dget r nm = Some (PLC x) /\ dget bak nm = Some (PLC f) /\ sc s' x /\
        Sym.veval p ins ig sg' (sval x) = sel (Sym.veval p ins ig sg0 (sval cb)) (Sym.veval p ins ig sg0 (sval t)) (Sym.veval p ins ig sg0 (sval f))) ->
     (forall nm, ~ In nm (map fst new) -> dget r nm = dget acc nm) -> Q r s' sg') ->
  Wp.wp ins ig (merge_bak c (PBool o cb) bak (map (fun nt => (fst nt, PLC (snd nt))) new) acc) s0 sg0 Q.
Proof. intros p ins ig c o cb bak s0 sg0 I0 Scb new acc Q. exact (merge_bak_lookup ins ig c o cb bak s0 sg0 I0 Scb new acc Q). Qed.
(* BranchContext.exit as a whole for an _if block whose variables all existed before the block: the guard state saved on entry is
   restored, then every variable is merged on the block condition (secret-integer variables; [pre] as in the previous theorem) *)
Theorem C09_block_exit_restores_and_merges : forall (p : Z), prime p -> forall ins ig (c : cfg) (cx : bctx (p:=p)) o cb (new : list (nat * Sym.slc p))
  (s : @Gadgets.gst p) sg (Q : Prog.bdict (p:=p) * Prog.bdict (p:=p) -> @Gadgets.gst p -> Sym.store -> Prop),
  WpBase.Inv ins ig s sg -> tvalid ins ig (borig cx) s sg -> bnodef cx = None -> bk cx = KIf -> bcond cx = PBool o cb -> sc s cb ->
  NoDup (map fst new) -> Forall (pre ins ig (bbak cx) s sg) new ->
  (forall r s' sg', WpBase.Inv ins ig s' sg' -> ext sg sg' ->
     (forall nm t, In (nm, t) new -> exists x f, dget r nm = Some (PLC x) /\ dget (bbak cx) nm = Some (PLC f) /\ sc s' x /\
        Sym.veval p ins ig sg' (sval x) = sel (Sym.veval p ins ig sg (sval cb)) (Sym.veval p ins ig sg (sval t)) (Sym.veval p ins ig sg (sval f))) ->
     Q (r, []) s' sg') ->
  Wp.wp ins ig (ctx_exit c cx (map (fun nt => (fst nt, PLC (snd nt))) new)) s sg Q.
Proof. intros p Hp ins ig c. exact (ctx_exit_value ins ig c). Qed.
(* A Hoare rule for the whole oblivious if-block of the model ( if _if(cond): body ; _endif() ), for ANY body: if the body, started in
   any state reached by entering the block (guard installed, backup taken), completes with the same context stack and secret-integer
   variables [news] (specification R), then the block as a whole completes with every variable holding
   old + cond * (new - old): the value at the end of the body when cond = 1 and the value from before the block when cond = 0, i.e. what the
   native `if cond: body` computes.  Proofs/IfRule.v (entry: add_guard + backup; exit: restore_guard + BranchContext.exit's merge). *)
Theorem C09_if_block_rule : forall (p : Z), prime p -> forall ins ig (c : cfg) (cn : nat) (thenb : list stmt) (b : @Prog.bst p) o cb (olds : list (nat * Sym.slc p)) s sg
    (R : list (nat * Sym.slc p) -> Sym.store -> Prop) (Q : @Prog.bst p -> @Gadgets.gst p -> Sym.store -> Prop),
  WpBase.Inv ins ig s sg -> rget (bregs b) cn = PBool o cb -> sc s cb -> bvals b = IfRule.lcs olds ->
  (forall orig ic s1 sg1, WpBase.Inv ins ig s1 sg1 -> ext sg sg1 -> tvalid ins ig orig s1 sg1 ->
     let cx := {| bk := KIf; bcond := PBool o cb; bbak := IfRule.lcs olds; borig := orig; bnodef := None; bicond := Some ic |} in
     Wp.wp ins ig (gen_stmts c thenb (with_stack b (cx :: bstack b))) s1 sg1
        (fun b2 s2 sg2 => WpBase.Inv ins ig s2 sg2 /\ ext sg1 sg2 /\ bstack b2 = cx :: bstack b /\
           exists news, bvals b2 = IfRule.lcs news /\ NoDup (map fst news) /\ Forall (pre ins ig (IfRule.lcs olds) s2 sg2) news /\ R news sg2)) ->
  (forall b3 s3 sg3 news sgb, WpBase.Inv ins ig s3 sg3 -> ext sg sgb -> ext sgb sg3 -> R news sgb -> bstack b3 = bstack b ->
     (forall nm t, In (nm, t) news -> exists x f, dget (bvals b3) nm = Some (PLC x) /\ dget (IfRule.lcs olds) nm = Some (PLC f) /\ sc s3 x /\
        Sym.veval p ins ig sg3 (sval x) = sel (Sym.veval p ins ig sg (sval cb)) (Sym.veval p ins ig sgb (sval t)) (Sym.veval p ins ig sgb (sval f))) ->
     Q b3 s3 sg3) ->
  Wp.wp ins ig (gen_top c (SOIf cn thenb [] None) b) s sg Q.
Proof. intros p Hp ins ig c. exact (IfRule.oif_rule ins ig (field_ok_prime p Hp) c). Qed.
(* the rule applied:   if _if(c): _.nm = e ; _endif()   ends with  nm = old + c * (e - old)  and every other variable unchanged, in every
   state satisfying the invariant (any enclosing guard), for all values *)
Theorem C09_conditional_assignment : forall (p : Z), prime p -> forall ins ig (c : cfg) (cn nm src : nat) (b : @Prog.bst p) o cb (olds : list (nat * Sym.slc p)) (t old : Sym.slc p) s sg
    (Q : @Prog.bst p -> @Gadgets.gst p -> Sym.store -> Prop),
  WpBase.Inv ins ig s sg -> rget (bregs b) cn = PBool o cb -> sc s cb -> bvals b = IfRule.lcs olds -> NoDup (map fst olds) ->
  Forall (fun nt => sc s (snd nt)) olds -> rget (bregs b) src = PLC t -> sc s t -> In (nm, old) olds ->
  (forall o', same_obj (with_oid t o') old = true -> Sym.veval p ins ig sg (sval t) = Sym.veval p ins ig sg (sval old)) ->
  (forall b3 s3 sg3, WpBase.Inv ins ig s3 sg3 -> ext sg sg3 -> bstack b3 = bstack b ->
     (exists x, dget (bvals b3) nm = Some (PLC x) /\
                Sym.veval p ins ig sg3 (sval x) = sel (Sym.veval p ins ig sg (sval cb)) (Sym.veval p ins ig sg (sval t)) (Sym.veval p ins ig sg (sval old))) ->
     (forall nm' f, nm' <> nm -> In (nm', f) olds -> exists x, dget (bvals b3) nm' = Some (PLC x) /\ Sym.veval p ins ig sg3 (sval x) = Sym.veval p ins ig sg (sval f)) ->
     Q b3 s3 sg3) ->
  Wp.wp ins ig (gen_top c (SOIf cn [SBSet nm src] [] None) b) s sg Q.
Proof. intros p Hp ins ig c. exact (IfRule.oif_assign ins ig (field_ok_prime p Hp) c). Qed.
(* ... and for a block of any number of assignments  if _if(c): _.n1 = e1; _.n2 = e2; ... ; _endif()  ([apply_asg]: the dictionary after the
   assignments, computed): every variable ends as old + c * (assigned - old) *)
Theorem C09_conditional_assignments : forall (p : Z), prime p -> forall ins ig (c : cfg) (cn : nat) (l : list (nat * nat)) (b : @Prog.bst p) o cb (olds news : list (nat * Sym.slc p)) s sg
    (Q : @Prog.bst p -> @Gadgets.gst p -> Sym.store -> Prop),
  WpBase.Inv ins ig s sg -> rget (bregs b) cn = PBool o cb -> sc s cb -> bvals b = IfRule.lcs olds -> NoDup (map fst olds) -> Forall (fun nt => sc s (snd nt)) olds ->
  IfRule.apply_asg (bregs b) olds l = Some news ->
  (forall src t, In src (map snd l) -> rget (bregs b) src = PLC t -> sc s t) ->
  (forall nm t f, In (nm, t) news -> In (nm, f) olds -> same_obj t f = true -> Sym.veval p ins ig sg (sval t) = Sym.veval p ins ig sg (sval f)) ->
  (forall b3 s3 sg3, WpBase.Inv ins ig s3 sg3 -> ext sg sg3 -> bstack b3 = bstack b ->
     (forall nm t, In (nm, t) news -> exists x f, In (nm, f) olds /\ dget (bvals b3) nm = Some (PLC x) /\
        Sym.veval p ins ig sg3 (sval x) = sel (Sym.veval p ins ig sg (sval cb)) (Sym.veval p ins ig sg (sval t)) (Sym.veval p ins ig sg (sval f))) ->
     Q b3 s3 sg3) ->
  Wp.wp ins ig (gen_top c (SOIf cn (IfRule.asg l) [] None) b) s sg Q.
Proof. intros p Hp ins ig c. exact (IfRule.oif_assigns ins ig (field_ok_prime p Hp) c). Qed.
(* the same for  if _if(cond): thenb ; if _else(): elseb ; _endif() :  after the then-branch is merged into [xs] (= old + cond * (mid - old)) the
   else-body runs under the guard 1 - cond and the block ends with every variable holding  xs + (1 - cond) * (new - xs):
   cond = 1: the then-branch's value;  cond = 0: the else-branch's value computed from the values before the block *)
Theorem C09_if_else_block_rule : forall (p : Z), prime p -> forall ins ig (c : cfg) (cn : nat) (thenb elseb : list stmt) (b : @Prog.bst p) o cb (olds : list (nat * Sym.slc p)) s sg
    (R1 : @Prog.bst p -> list (nat * Sym.slc p) -> Sym.store -> Prop) (R2 : @Prog.bst p -> list (nat * Sym.slc p) -> list (nat * Sym.slc p) -> Sym.store -> Prop)
    (Q : @Prog.bst p -> @Gadgets.gst p -> Sym.store -> Prop),
  WpBase.Inv ins ig s sg -> rget (bregs b) cn = PBool o cb -> sc s cb -> bvals b = IfRule.lcs olds ->
  (forall orig s1 sg1, WpBase.Inv ins ig s1 sg1 -> ext sg sg1 -> tvalid ins ig orig s1 sg1 ->
     let cx := {| bk := KIf; bcond := PBool o cb; bbak := IfRule.lcs olds; borig := orig; bnodef := None; bicond := Some (PBool 0 (bnot cb)) |} in
     Wp.wp ins ig (gen_stmts c thenb (with_stack b (cx :: bstack b))) s1 sg1
        (fun b2 s2 sg2 => WpBase.Inv ins ig s2 sg2 /\ ext sg1 sg2 /\ bstack b2 = cx :: bstack b /\
           exists mids, bvals b2 = IfRule.lcs mids /\ NoDup (map fst mids) /\ Forall (pre ins ig (IfRule.lcs olds) s2 sg2) mids /\ R1 b2 mids sg2)) ->
  (forall b2 mids xs orig sgb s3 sg3, R1 b2 mids sgb -> ext sg sgb -> ext sgb sg3 -> WpBase.Inv ins ig s3 sg3 -> tvalid ins ig orig s3 sg3 ->
     Forall2 (IfRule.merged ins ig (IfRule.lcs olds) cb sgb s3 sg3) mids xs ->
     let cx1 := {| bk := KIf; bcond := PBool 0 (bnot cb); bbak := IfRule.lcs xs; borig := orig; bnodef := Some []; bicond := None |} in
     Wp.wp ins ig (gen_stmts c elseb (with_stack (with_vals b2 (IfRule.lcs xs)) (cx1 :: bstack b))) s3 sg3
        (fun b3 s4 sg4 => WpBase.Inv ins ig s4 sg4 /\ ext sg3 sg4 /\ bstack b3 = cx1 :: bstack b /\
           exists news, bvals b3 = IfRule.lcs news /\ NoDup (map fst news) /\ Forall (pre ins ig (IfRule.lcs xs) s4 sg4) news /\ R2 b3 xs news sg4)) ->
  (forall b4 b3 s5 sg5 xs news sge, WpBase.Inv ins ig s5 sg5 -> ext sg sge -> ext sge sg5 -> R2 b3 xs news sge -> bstack b4 = bstack b ->
     (forall nm t, In (nm, t) news -> exists x f, dget (bvals b4) nm = Some (PLC x) /\ dget (IfRule.lcs xs) nm = Some (PLC f) /\ sc s5 x /\
        Sym.veval p ins ig sg5 (sval x) = sel (1 - Sym.veval p ins ig sg (sval cb)) (Sym.veval p ins ig sge (sval t)) (Sym.veval p ins ig sge (sval f))) ->
     Q b4 s5 sg5) ->
  Wp.wp ins ig (gen_top c (SOIf cn thenb [] (Some elseb)) b) s sg Q.
Proof. intros p Hp ins ig c. exact (IfRule.oifelse_rule ins ig c). Qed.
(* The oblivious while loop of the model ( k = 0; while _while(<condb>; regs[cr]) and k < iters: body; k += 1; _endwhile() ) with a loop
   invariant J (iterations done, registers, variables, the ACCUMULATED condition = product of all conditions evaluated so far, a store):
   if the first evaluation of the condition establishes J 0 and one iteration -- body then condition, both under the current guard --
   re-establishes J (S k) from the merged values  old + acc * (new - old)  and the new accumulated condition acc * cond, then the loop ends
   with J iters and the variables holding the invariant's values.  An iteration whose accumulated condition is 0 changes nothing; while
   it is 1 the body's values are taken: what  `while cond and k < iters: body`  computes natively. *)
Theorem C09_while_loop_rule : forall (p : Z), prime p -> forall ins ig (c : cfg) (condb body : list stmt) (cr iters : nat) (b : @Prog.bst p)
    (J : nat -> Prog.regs (p:=p) -> list (nat * Sym.slc p) -> Sym.slc p -> Sym.store -> Prop),
  (* one iteration *)
  (forall k b0 cx vals o cc sgJ s1 sg1, (k < iters)%nat -> WpBase.Inv ins ig s1 sg1 -> bstack b0 = cx :: bstack b -> bvals b0 = IfRule.lcs vals -> bcond cx = PBool o cc ->
    J k (bregs b0) vals cc sgJ -> ext sgJ sg1 ->
    Wp.wp ins ig (gen_stmts c body b0) s1 sg1 (fun b1 s1' sg1' => Wp.wp ins ig (gen_stmts c condb b1) s1' sg1'
      (fun b2 s2 sg2 => WpBase.Inv ins ig s2 sg2 /\ ext sg1 sg2 /\ bstack b2 = bstack b0 /\
         exists news o' nw, bvals b2 = IfRule.lcs news /\ NoDup (map fst news) /\ Forall (pre ins ig (IfRule.lcs vals) s2 sg2) news /\
           rget (bregs b2) cr = PBool o' nw /\ sc s2 nw /\
           (forall xs cc' s3 sg3, WpBase.Inv ins ig s3 sg3 -> ext sg2 sg3 -> Forall2 (IfRule.merged ins ig (IfRule.lcs vals) cc sg2 s3 sg3) news xs -> sc s3 cc' ->
              Sym.veval p ins ig sg3 (sval cc') = Sym.veval p ins ig sg2 (sval cc) * Sym.veval p ins ig sg2 (sval nw) -> J (S k) (bregs b2) xs cc' sg3)))) ->
  forall s sg (Q : @Prog.bst p -> @Gadgets.gst p -> Sym.store -> Prop),
  WpBase.Inv ins ig s sg ->
  (* the first evaluation of the condition *)
  Wp.wp ins ig (gen_stmts c condb b) s sg (fun bc s1 sg1 => WpBase.Inv ins ig s1 sg1 /\ ext sg sg1 /\ bstack bc = bstack b /\
     exists vals o0 c0, bvals bc = IfRule.lcs vals /\ rget (bregs bc) cr = PBool o0 c0 /\ sc s1 c0 /\ NoDup (map fst vals) /\
       Forall (fun nt => sc s1 (snd nt)) vals /\ J 0%nat (bregs bc) vals c0 sg1) ->
  (* after the loop *)
  (forall b4 s4 sg4 vals cc sgJ xs, WpBase.Inv ins ig s4 sg4 -> ext sg sg4 -> ext sgJ sg4 -> J iters (bregs b4) vals cc sgJ -> bstack b4 = bstack b -> bvals b4 = IfRule.lcs xs ->
     Forall2 (fun nt nx => fst nx = fst nt /\ sc s4 (snd nx) /\ Sym.veval p ins ig sg4 (sval (snd nx)) = Sym.veval p ins ig sgJ (sval (snd nt))) vals xs -> Q b4 s4 sg4) ->
  Wp.wp ins ig (gen_top c (SOWhile condb cr iters body) b) s sg Q.
Proof. intros p Hp ins ig c condb body cr iters b J HS. exact (IfRule.owhile_rule ins ig c condb body cr iters b J HS). Qed.
(* _breakif(c) inside a loop: the variables are merged under the accumulated condition and the loop continues under acc * (1 - c) *)
Theorem C09_breakif_rule : forall (p : Z), prime p -> forall ins ig (c : cfg) (cn : nat) (b : @Prog.bst p) (cx : bctx (p:=p)) (rest : list (bctx (p:=p))) o cb (new : list (nat * Sym.slc p)) o' bc s sg
    (Q : @Prog.bst p -> @Gadgets.gst p -> Sym.store -> Prop),
  WpBase.Inv ins ig s sg -> bstack b = cx :: rest -> rget (bregs b) cn = PBool o' bc -> bvals b = IfRule.lcs new ->
  tvalid ins ig (borig cx) s sg -> (bnodef cx = None \/ bnodef cx = Some []) -> bcond cx = PBool o cb -> sc s cb -> sc s bc ->
  NoDup (map fst new) -> Forall (pre ins ig (bbak cx) s sg) new ->
  (forall xs cc orig s' sg', WpBase.Inv ins ig s' sg' -> ext sg sg' -> tvalid ins ig orig s' sg' -> Forall2 (IfRule.merged ins ig (bbak cx) cb sg s' sg') new xs ->
     sc s' cc -> Sym.veval p ins ig sg' (sval cc) = Sym.veval p ins ig sg (sval cb) * (1 - Sym.veval p ins ig sg (sval bc)) ->
     Q (with_stack (with_vals b (IfRule.lcs xs)) ({| bk := KWhile; bcond := PBool 0 cc; bbak := IfRule.lcs xs; borig := orig; bnodef := Some []; bicond := None |} :: rest)) s' sg') ->
  Wp.wp ins ig (gen_top c (SBreakIf cn) b) s sg Q.
Proof. intros p Hp ins ig c. exact (IfRule.obreakif_rule ins ig c). Qed.
(* The oblivious for loop of the model ( for i in _range(start, regs[stop], max=maxv, checkstopmax=check): regs[ix] = i; body ; _endfor() ;
   with checkstopmax the loop additionally asserts, after the last iteration, that the accumulated condition and [last <> stop] are not both 1 ):
   max - start iterations run (at least one); iteration k runs with the index start + k under the accumulated condition
   acc_k = [start <> stop] * ... * [start + k <> stop]  (1 exactly while the index has not reached the secret bound); between iterations the
   variables are merged old + acc * (new - old) (WhileContext._while), after the last one by _endfor.  With a loop invariant J and a final
   predicate Jend: *)
Theorem C09_for_loop_rule : forall (p : Z), prime p -> forall ins ig (c : cfg) (body : list stmt) (ix : nat) (start : Z) (stop : nat) (maxv : Z) (b : @Prog.bst p) (sx : Sym.slc p)
    (J : nat -> Prog.regs (p:=p) -> list (nat * Sym.slc p) -> Sym.slc p -> Sym.store -> Prop) (Jend : Prog.regs (p:=p) -> list (nat * Sym.slc p) -> Sym.store -> Prop),
  let n := Z.to_nat (maxv - start - 1) in
  (forall k b0 cx vals o cc sgJ s1 sg1, (k <= n)%nat -> WpBase.Inv ins ig s1 sg1 -> bstack b0 = cx :: bstack b -> bvals b0 = IfRule.lcs vals -> bcond cx = PBool o cc ->
    J k (bregs b0) vals cc sgJ -> ext sgJ sg1 ->
    Wp.wp ins ig (gen_stmts c body (with_regs b0 (rset (bregs b0) ix (PInt (start + Z.of_nat k))))) s1 sg1
      (fun b2 s2 sg2 => WpBase.Inv ins ig s2 sg2 /\ ext sg1 sg2 /\ bstack b2 = bstack b0 /\
         exists news, bvals b2 = IfRule.lcs news /\ NoDup (map fst news) /\ Forall (pre ins ig (IfRule.lcs vals) s2 sg2) news /\
           ((k < n)%nat -> forall xs cc' s3 sg3 sgc, WpBase.Inv ins ig s3 sg3 -> ext sg2 sgc -> ext sgc sg3 -> Forall2 (IfRule.merged ins ig (IfRule.lcs vals) cc sgc s3 sg3) news xs -> sc s3 cc' ->
              Sym.veval p ins ig sg3 (sval cc') = Sym.veval p ins ig sg2 (sval cc) * (if (start + Z.of_nat k + 1) =? Sym.veval p ins ig sg2 (sval sx) then 0 else 1) -> J (S k) (bregs b2) xs cc' sg3) /\
           (k = n -> forall xs s3 sg3, WpBase.Inv ins ig s3 sg3 -> ext sg2 sg3 -> Forall2 (IfRule.merged ins ig (IfRule.lcs vals) cc sg2 s3 sg3) news xs -> Jend (bregs b2) xs sg3))) ->
  forall (check : bool) (vals0 : list (nat * Sym.slc p)) s sg (Q : @Prog.bst p -> @Gadgets.gst p -> Sym.store -> Prop),
  WpBase.Inv ins ig s sg -> rget (bregs b) stop = PLC sx -> sc s sx -> bvals b = IfRule.lcs vals0 -> NoDup (map fst vals0) ->
  (forall cc s1 sg1, WpBase.Inv ins ig s1 sg1 -> ext sg sg1 -> sc s1 cc -> Sym.veval p ins ig sg1 (sval cc) = (if start =? Sym.veval p ins ig sg (sval sx) then 0 else 1) -> J 0%nat (bregs b) vals0 cc sg1) ->
  (forall b4 s4 sg4 xs, WpBase.Inv ins ig s4 sg4 -> ext sg sg4 -> Jend (bregs b4) xs sg4 -> bstack b4 = bstack b -> bvals b4 = IfRule.lcs xs -> Q b4 s4 sg4) ->
  Wp.wp ins ig (gen_top c (SOFor ix start stop maxv check body) b) s sg Q.
Proof. intros p Hp ins ig c body ix start stop maxv b sx J Jend n HS. exact (IfRule.ofor_rule ins ig (field_ok_prime p Hp) c body ix start stop maxv b sx J Jend HS). Qed.
(* if / elif* chains ( if _if(c): thenb ; [if _elif(lambda: <condb>; regs[cr]): body]* ; [if _else(): elseb] ; _endif() ), any number of _elif:
   with invariants JC j (at the head of branch j: the previous branch's values not yet merged, the backup, its effective condition cj and the
   running "no branch taken yet" condition icj), JM j (after branch j's condition nw was evaluated outside the previous guard) and JE (after the
   else body).  Branch j runs under  icj * nw, the running condition becomes icj * (1 - nw); each branch is merged old + cond * (new - old) when
   the next one is examined; the else body runs under the final running condition.  For 0/1 conditions exactly the first branch whose condition
   holds contributes its values, or the else body: the native if / elif / else.  The three specifications, spelled out: *)
Section C09_chain.
Variable p : Z.
Hypothesis Hp : prime p.
Variables (ins : list Z) (ig : bool) (c : cfg).
Variables (es : list (list stmt * nat * list stmt)) (b : @Prog.bst p).
Variable JC : nat -> Prog.regs (p:=p) -> list (nat * Sym.slc p) -> list (nat * Sym.slc p) -> Sym.slc p -> Sym.slc p -> Sym.store -> Prop.
Variable JM : nat -> Prog.regs (p:=p) -> list (nat * Sym.slc p) -> Sym.slc p -> Sym.slc p -> Sym.store -> Prop.
Variable JE : Prog.regs (p:=p) -> list (nat * Sym.slc p) -> list (nat * Sym.slc p) -> Sym.slc p -> Sym.store -> Prop.
Local Notation ve := (Sym.veval p ins ig).
Local Notation Inv := (WpBase.Inv ins ig).
Local Notation lcs := IfRule.lcs.
Local Notation merged := (IfRule.merged ins ig).
Theorem C09_chain_condition_spec : IfRule.CondSpec ins ig c es b JC JM <->
  (forall j condb cr body, nth_error es j = Some (condb, cr, body) ->
   forall b0 news baks cj icj sgJ xs sgm s1 sg1, JC j (bregs b0) news baks cj icj sgJ -> ext sgJ sgm -> ext sgm sg1 -> Inv s1 sg1 ->
     Forall2 (merged (lcs baks) cj sgm s1 sg1) news xs ->
     Wp.wp ins ig (gen_stmts c condb (with_stack (with_vals b0 (lcs xs)) (bstack b))) s1 sg1
       (fun bc s2 sg2 => Inv s2 sg2 /\ ext sg1 sg2 /\ bstack bc = bstack b /\ bvals bc = lcs xs /\
          exists o' nw, rget (bregs bc) cr = PBool o' nw /\ sc s2 nw /\ JM j (bregs bc) xs icj nw sg2)).
Proof. split; intros H; exact H. Qed.
Theorem C09_chain_body_spec : IfRule.BodySpec ins ig c es b JC JM <->
  (forall j condb cr body, nth_error es j = Some (condb, cr, body) ->
   forall bc xs icj nw sgM en nwic orig s3 sg3, JM j (bregs bc) xs icj nw sgM -> ext sgM sg3 -> Inv s3 sg3 -> tvalid ins ig orig s3 sg3 ->
     bstack bc = bstack b -> bvals bc = lcs xs -> sc s3 en -> sc s3 nwic ->
     ve sg3 (sval en) = ve sgM (sval icj) * ve sgM (sval nw) -> ve sg3 (sval nwic) = ve sgM (sval icj) * (1 - ve sgM (sval nw)) ->
     let cx1 := {| bk := KIf; bcond := PBool 0 en; bbak := lcs xs; borig := orig; bnodef := Some []; bicond := Some (PBool 0 nwic) |} in
     Wp.wp ins ig (gen_stmts c body (with_stack bc (cx1 :: bstack b))) s3 sg3
       (fun bb s4 sg4 => Inv s4 sg4 /\ ext sg3 sg4 /\ bstack bb = cx1 :: bstack b /\
          exists news', bvals bb = lcs news' /\ NoDup (map fst news') /\ Forall (pre ins ig (lcs xs) s4 sg4) news' /\ JC (S j) (bregs bb) news' xs en nwic sg4)).
Proof. split; intros H; exact H. Qed.
Theorem C09_chain_else_spec : forall body, IfRule.ElseSpec ins ig c es b JC JE body <->
  (forall b2 news baks cj oi icj sgJ xs sgm orig s3 sg3, JC (length es) (bregs b2) news baks cj icj sgJ -> ext sgJ sgm -> ext sgm sg3 -> Inv s3 sg3 ->
     tvalid ins ig orig s3 sg3 -> Forall2 (merged (lcs baks) cj sgm s3 sg3) news xs ->
     let cx1 := {| bk := KIf; bcond := PBool oi icj; bbak := lcs xs; borig := orig; bnodef := Some []; bicond := None |} in
     Wp.wp ins ig (gen_stmts c body (with_stack (with_vals b2 (lcs xs)) (cx1 :: bstack b))) s3 sg3
       (fun b3 s4 sg4 => Inv s4 sg4 /\ ext sg3 sg4 /\ bstack b3 = cx1 :: bstack b /\
          exists news_e, bvals b3 = lcs news_e /\ NoDup (map fst news_e) /\ Forall (pre ins ig (lcs xs) s4 sg4) news_e /\ JE (bregs b3) news_e xs icj sg4)).
Proof. intros body. split; intros H; exact H. Qed.
Theorem C09_if_elif_chain_rule : IfRule.CondSpec ins ig c es b JC JM -> IfRule.BodySpec ins ig c es b JC JM ->
  forall (cn : nat) (thenb : list stmt) o cb (olds : list (nat * Sym.slc p)) s sg (Q : @Prog.bst p -> @Gadgets.gst p -> Sym.store -> Prop),
  Inv s sg -> rget (bregs b) cn = PBool o cb -> sc s cb -> bvals b = lcs olds ->
  (forall orig s1 sg1, Inv s1 sg1 -> ext sg sg1 -> tvalid ins ig orig s1 sg1 ->
     let cx := {| bk := KIf; bcond := PBool o cb; bbak := lcs olds; borig := orig; bnodef := None; bicond := Some (PBool 0 (bnot cb)) |} in
     Wp.wp ins ig (gen_stmts c thenb (with_stack b (cx :: bstack b))) s1 sg1
        (fun b2 s2 sg2 => Inv s2 sg2 /\ ext sg1 sg2 /\ bstack b2 = cx :: bstack b /\
           exists news, bvals b2 = lcs news /\ NoDup (map fst news) /\ Forall (pre ins ig (lcs olds) s2 sg2) news /\ JC 0%nat (bregs b2) news olds cb (bnot cb) sg2)) ->
  (forall b4 s4 sg4 news baks cj icj sgJ xs sgm, Inv s4 sg4 -> ext sg sg4 -> ext sgJ sgm -> ext sgm sg4 -> JC (length es) (bregs b4) news baks cj icj sgJ -> bstack b4 = bstack b -> bvals b4 = lcs xs ->
     Forall2 (merged (lcs baks) cj sgm s4 sg4) news xs -> Q b4 s4 sg4) ->
  Wp.wp ins ig (gen_top c (SOIf cn thenb es None) b) s sg Q.
Proof. intros HC HB. exact (IfRule.oifchain_rule ins ig c es b JC JM HC HB). Qed.
Theorem C09_if_elif_else_chain_rule : IfRule.CondSpec ins ig c es b JC JM -> IfRule.BodySpec ins ig c es b JC JM -> forall body, IfRule.ElseSpec ins ig c es b JC JE body ->
  forall (cn : nat) (thenb : list stmt) o cb (olds : list (nat * Sym.slc p)) s sg (Q : @Prog.bst p -> @Gadgets.gst p -> Sym.store -> Prop),
  Inv s sg -> rget (bregs b) cn = PBool o cb -> sc s cb -> bvals b = lcs olds ->
  (forall orig s1 sg1, Inv s1 sg1 -> ext sg sg1 -> tvalid ins ig orig s1 sg1 ->
     let cx := {| bk := KIf; bcond := PBool o cb; bbak := lcs olds; borig := orig; bnodef := None; bicond := Some (PBool 0 (bnot cb)) |} in
     Wp.wp ins ig (gen_stmts c thenb (with_stack b (cx :: bstack b))) s1 sg1
        (fun b2 s2 sg2 => Inv s2 sg2 /\ ext sg1 sg2 /\ bstack b2 = cx :: bstack b /\
           exists news, bvals b2 = lcs news /\ NoDup (map fst news) /\ Forall (pre ins ig (lcs olds) s2 sg2) news /\ JC 0%nat (bregs b2) news olds cb (bnot cb) sg2)) ->
  (forall b5 s5 sg5 news_e xs icj sgE fin, Inv s5 sg5 -> ext sg sg5 -> ext sgE sg5 -> JE (bregs b5) news_e xs icj sgE -> bstack b5 = bstack b -> bvals b5 = lcs fin ->
     Forall2 (merged (lcs xs) icj sgE s5 sg5) news_e fin -> Q b5 s5 sg5) ->
  Wp.wp ins ig (gen_top c (SOIf cn thenb es (Some body)) b) s sg Q.
Proof. intros HC HB body HE. exact (IfRule.oifchain_else_rule ins ig c es b JC JM JE HC HB body HE). Qed.
End C09_chain.
(* the selection is the native choice on 0/1 conditions *)
Theorem C09_selection_is_native_choice : forall t f, sel 1 t f = t /\ sel 0 t f = f.
Proof. intros t f. split; [apply sel_1|apply sel_0]. Qed.
(* the constraints emitted by block-API programs are satisfied by the recorded witness, whichever branches are taken *)
Theorem C09_constraints_satisfied : forall (p : Z) (c : cfg) (pr : list stmt) (ins : list Z),
  prime p -> forallb noign pr = true ->
  let t := model_run (p:=p) c pr ins false in Forall (holds (p:=p) (wval (st t))) (cons t).
Proof. intros p c pr ins Hp N. exact (program_complete (field_ok_prime p Hp) c pr ins N). Qed.

(* non-vacuity: a chain with two _elif and an _else inside a for loop with a secret bound, followed by a while with a break *)
Definition ex_prog : cmd nat :=
  Seq nat (For nat (fun s => Z.min 3 (Z.max 0 (s 0%nat))) 3 (fun i =>
            Cond nat (CElif nat (fun s => s 1%nat =? 0) (Assign nat 2%nat (fun s => s 2%nat + 10))
                     (CElif nat (fun s => s 1%nat =? 1) (Assign nat 2%nat (fun s => s 2%nat + 20))
                     (CElif nat (fun s => s 1%nat =? 2) (Assign nat 1%nat (fun _ => 0))
                     (CElse nat (Assign nat 2%nat (fun s => s 2%nat + Z.of_nat i))))))))
          (While nat (fun s => s 2%nat <? 100) 4 (Assign nat 2%nat (fun s => 2 * s 2%nat)) (fun s => s 2%nat =? 44) (Assign nat 3%nat (fun s => s 3%nat + 1))).
Example C09_example :
  ok nat ex_prog /\
  let s0 : nat -> Z := fun x => match x with 0%nat => 2 | 1%nat => 2 | _ => 1 end in
  let s := oexec nat Nat.eq_dec (fun _ _ => 777) ex_prog true s0 in
  (s 1%nat, s 2%nat, s 3%nat) = (0, 44, 2).
Proof. split; [cbn; repeat split; lia|vm_compute; reflexivity]. Qed.

(* non-vacuity at the level of the model: x = 5; _.v = x; if _if(c): _.v = x*x; _endif(); read _.v  --  for both values of c *)
Example C09_model_example :
  let pr := [SInput 0 IPriv 0; SInput 1 IPrivBool 1; SBSet 7 0; SOIf 1 [SBin 2 OMul 0 0; SBSet 7 2] [] None; SBGet 3 7] in
  let run cv := model_run (p:=65537) {| bitlength := 8%nat; resolution := 0 |} pr [5; cv] false in
  (nth 3 (map (fun o => snd (fst o)) (outs (run 0))) 0, raised (run 0)) = (5, None) /\
  (nth 3 (map (fun o => snd (fst o)) (outs (run 1))) 0, raised (run 1)) = (25, None).
Proof. vm_compute. split; reflexivity. Qed.

(* non-vacuity of the if / else rule at the level of the model: _.v = x; if _if(c): _.v = x*x; if _else(): _.v = x + x; _endif() *)
Example C09_model_else_example :
  let pr := [SInput 0 IPriv 0; SInput 1 IPrivBool 1; SBSet 7 0; SOIf 1 [SBin 2 OMul 0 0; SBSet 7 2] [] (Some [SBin 4 OAdd 0 0; SBSet 7 4]); SBGet 3 7] in
  let run cv := model_run (p:=65537) {| bitlength := 8%nat; resolution := 0 |} pr [5; cv] false in
  (nth 4 (map (fun o => snd (fst o)) (outs (run 0))) 0, raised (run 0)) = (10, None) /\
  (nth 4 (map (fun o => snd (fst o)) (outs (run 1))) 0, raised (run 1)) = (25, None).
Proof. vm_compute. split; reflexivity. Qed.

(* non-vacuity of the loop rule at the level of the model: _.v = 1; _.k = n; while _while(_.k > 0) and iterations < 3: _.v = _.v * 2; _.k = _.k - 1 *)
Example C09_model_while_example :
  let pr := [SInput 0 IPriv 0; SConstVal 1 1; SConstVal 5 0; SBSet 7 1; SBSet 8 0;
             SOWhile [SBGet 2 8; SBin 3 OGt 2 5] 3 3 [SBGet 4 7; SBin 6 OAdd 4 4; SBSet 7 6; SBGet 9 8; SConstVal 10 1; SBin 11 OSub 9 10; SBSet 8 11];
             SBGet 12 7] in
  let run n := model_run (p:=65537) {| bitlength := 8%nat; resolution := 0 |} pr [n] false in
  (nth 26 (map (fun o => snd (fst o)) (outs (run 0))) 0, raised (run 0)) = (1, None) /\
  (nth 26 (map (fun o => snd (fst o)) (outs (run 2))) 0, raised (run 2)) = (4, None) /\
  (nth 26 (map (fun o => snd (fst o)) (outs (run 5))) 0, raised (run 5)) = (8, None).
Proof. vm_compute. repeat split; reflexivity. Qed.

(* non-vacuity of the for rule at the level of the model: _.v = 0; for i in _range(0, n, max=4): _.v = _.v + i *)
Example C09_model_for_example :
  let pr := [SInput 0 IPriv 0; SConstVal 1 0; SBSet 7 1; SOFor 2 0 0 4 false [SBGet 3 7; SBin 4 OAdd 3 2; SBSet 7 4]; SBGet 5 7] in
  let run nn := model_run (p:=65537) {| bitlength := 8%nat; resolution := 0 |} pr [nn] false in
  map (fun nn => (nth 14 (map (fun o => snd (fst o)) (outs (run nn))) 77, raised (run nn))) [0; 1; 2; 3; 4] = [(0, None); (0, None); (1, None); (3, None); (6, None)].
Proof. vm_compute. reflexivity. Qed.

(* non-vacuity of the chain rules at the level of the model: if _if(x == 0): _.v = 10; if _elif(x == 1): _.v = 20; if _elif(x == 2): _.v = 30; if _else(): _.v = 40 *)
Example C09_model_chain_example :
  let pr := [SInput 0 IPriv 0; SConstVal 1 0; SConstVal 2 1; SConstVal 3 2; SConstVal 10 10; SConstVal 11 20; SConstVal 12 30; SConstVal 13 40; SConstVal 14 5; SBSet 7 14;
             SBin 4 OEq 0 1;
             SOIf 4 [SBSet 7 10] [([SBin 5 OEq 0 2], 5%nat, [SBSet 7 11]); ([SBin 6 OEq 0 3], 6%nat, [SBSet 7 12])] (Some [SBSet 7 13]); SBGet 20 7] in
  let run x := model_run (p:=65537) {| bitlength := 8%nat; resolution := 0 |} pr [x] false in
  map (fun x => (raised (run x), nth 12 (map (fun o => snd (fst o)) (outs (run x))) 0)) [0; 1; 2; 3] = [(None, 10); (None, 20); (None, 30); (None, 40)].
Proof. vm_compute. reflexivity. Qed.

Print Assumptions C09_oblivious_equals_native.
Print Assumptions C09_merge_primitive.
Print Assumptions C09_if_block_rule.
Print Assumptions C09_conditional_assignment.
Print Assumptions C09_if_else_block_rule.
Print Assumptions C09_while_loop_rule.
Print Assumptions C09_if_elif_chain_rule.
Print Assumptions C09_if_elif_else_chain_rule.
Print Assumptions C09_for_loop_rule.
Print Assumptions C09_breakif_rule.
Print Assumptions C09_conditional_assignments.
Print Assumptions C09_merge_at_block_exit.
Print Assumptions C09_block_exit_restores_and_merges.
Print Assumptions C09_untouched_variables_keep_their_value.
