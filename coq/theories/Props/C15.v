(* C15 — secret-index array access reads and writes exactly one element.
   PARTIAL.  Proved (Proofs/ArrayCore.v), for every prime p, every array length n <= p, all contents, every index wire and
   ANY assignment satisfying the constraints of the access (selectors forced to [idx = i] by the zero-test gadget --
   C02_model_eq --, and the asserted sum of selectors = 1):
     - the index is congruent to exactly one position j < n; the read (inner product) returns the element at j;
       the write (per-position selection) puts the value at j and leaves every other element unchanged;
     - an index outside 0..n-1 admits no satisfying assignment (cannot be proven).
   Completeness of array programs (honest witness satisfies) is the C01 theorem; "identical constraints for every index
   value" is the C06 theorem.  LINKED to the model (Proofs/ArrayModel.v, theorems C15_model_read_is_exact etc.): the constraints that the model's secret-index
   read and write of a 1-D array of secret integers / plain ints really emit -- through the Python operator dispatch -- force exactly
   that, for any assignment (no guard active or a guard whose wire is 1; LinComb.ONE = 1).  Public indexes are Python list indexing (theorems C15_public_read etc.); 2-D tuples with a public row and a secret
   column reduce to the 1-D theorems (theorems C15_row_read_is_exact etc.).  NOT proved in Coq: index tuples whose FIRST index is secret (sums of whole rows), arrays of other element kinds, writes of a value that is itself (the same Python object
   as) an element.  The Array model is compared trace-for-trace with the real code, every
   generated sequence of reads and writes (1-D, 2-D, constants and secrets) is compared with plain Python lists, and
   out-of-bounds indices must raise / leave the constraint system unsatisfied. *)
From Coq Require Import ZArith List Bool Lia Znumtheory.
From PySnark.Base Require Import FieldZ.
From PySnark.Model Require Import Lc Sym Gadgets Api Prog.
From PySnark.Proofs Require Import Meta Adv AdvGadgets ArrayCore ArrayModel.
Import ListNotations.
Open Scope Z_scope.

Theorem C15_access_is_exact : forall p, prime p -> forall idx es xs v,
  length xs = length es -> Z.of_nat (length es) <= p -> selectors p idx 0 es -> feq p (sum es) 1 ->
  exists j, (j < length es)%nat /\ feq p idx (Z.of_nat j) /\ feq p (dot es xs) (nth j xs 0) /\ feq p (nth j (upd es xs v) 0) v /\
            forall i, (i < length es)%nat -> i <> j -> feq p (nth i (upd es xs v) 0) (nth i xs 0).
Proof. intros p Hp. exact (array_access p Hp). Qed.
Theorem C15_out_of_bounds_cannot_be_proven : forall p, prime p -> forall idx es,
  Z.of_nat (length es) <= p -> selectors p idx 0 es -> (forall j, (j < length es)%nat -> ~ feq p idx (Z.of_nat j)) -> ~ feq p (sum es) 1.
Proof. intros p Hp. exact (out_of_bounds_unprovable p Hp). Qed.
(* ---- the same about the constraints the MODEL's Array.__getitem__ / __setitem__ emit for a secret index ---- *)
Section C15_model.
Variable p : Z.
Hypothesis Hp : prime p.
Variable w : var -> Z.                 (* ANY assignment of the variables *)
Hypothesis W0 : w 0 = 1.
Variable c : cfg.
Variable s : @Gadgets.gst p.
Hypothesis G : AdvGadgets.Gok w s.     (* no active guard, or the active guard's wire is 1 under w *)
Hypothesis O : AdvGadgets.Oone w s.    (* LinComb.ONE evaluates to 1 (it is the guard inside a guarded region) *)
Notation "a == b" := (feq p a b) (at level 70).
Notation ew := (AdvGadgets.ew w).
Notation elw := (ArrayModel.elw w).
Notation sat cs := (Forall (holds (p:=p) w) (cons_of cs)).

Theorem C15_model_read_is_exact : forall (l : list (Sym.slc p + Z)) x r s' cs, l <> [] -> Z.of_nat (length l) <= p ->
  run (arr_get1 c (map inj l) (PLC x)) s = (inl r, s', cs) -> sat cs ->
  exists j t, (j < length l)%nat /\ r = PLC t /\ ew x == Z.of_nat j /\ ew t == nth j (map elw l) 0.
Proof. exact (arr_get1_forced Hp w W0 c s G O). Qed.
Theorem C15_model_out_of_bounds_unprovable : forall (l : list (Sym.slc p + Z)) x r s' cs, l <> [] -> Z.of_nat (length l) <= p ->
  (forall j, (j < length l)%nat -> ~ ew x == Z.of_nat j) ->
  run (arr_get1 c (map inj l) (PLC x)) s = (inl r, s', cs) -> ~ sat cs.
Proof. exact (arr_get1_out_of_bounds Hp w W0 c s G O). Qed.
Theorem C15_model_write_is_exact : forall (l : list (Sym.slc p + Z)) x v r s' cs, l <> [] -> Z.of_nat (length l) <= p ->
  Forall (fun old => same_val (PLC v) (inj old) = false) l ->
  run (arr_set1 c (map inj l) (PLC x) (PLC v)) s = (inl r, s', cs) -> sat cs ->
  exists j ts, r = map PLC ts /\ length ts = length l /\ (j < length l)%nat /\ ew x == Z.of_nat j /\ nth j (map ew ts) 0 == ew v /\
               forall i, (i < length l)%nat -> i <> j -> nth i (map ew ts) 0 == nth i (map elw l) 0.
Proof. exact (arr_set1_forced Hp w W0 c s G O). Qed.
(* public indexes: Python list indexing (negative indexes count from the end), nothing emitted, the state unchanged *)
Theorem C15_public_index_is_list_indexing : forall (l : list (Api.pyval p)) k j,
  py_index (Z.of_nat (length l)) k = Some j <-> ((0 <= k < Z.of_nat (length l) /\ j = Z.to_nat k) \/ (- Z.of_nat (length l) <= k < 0 /\ j = Z.to_nat (Z.of_nat (length l) + k))).
Proof. intros l k j. exact (py_index_spec (Z.of_nat (length l)) k j). Qed.
Theorem C15_public_read : forall (l : list (Api.pyval p)) k j, py_index (Z.of_nat (length l)) k = Some j ->
  run (arr_get1 c l (PInt k)) s = (inl (nth j l PNone), s, []).
Proof. exact (arr_get1_public c s). Qed.
Theorem C15_public_write : forall (l : list (Api.pyval p)) k j v, py_index (Z.of_nat (length l)) k = Some j ->
  run (arr_set1 c l (PInt k) v) s = (inl (upd_nth l j v), s, []).
Proof. exact (arr_set1_public c s). Qed.
Theorem C15_public_index_out_of_range_raises : forall (l : list (Api.pyval p)) k, py_index (Z.of_nat (length l)) k = None ->
  exists s' cs, run (arr_get1 c l (PInt k)) s = (inr IndexError, s', cs).
Proof. exact (arr_get1_public_out_of_range c s). Qed.
(* 2-D: A[k, x] and A[k, x] = v with a public row k and a secret column x *)
Theorem C15_row_read_is_exact : forall (rows : list (Api.pyval p)) k j b (row : list (Sym.slc p + Z)) x r s' cs,
  py_index (Z.of_nat (length rows)) k = Some j -> nth j rows PNone = PArr b (map inj row) -> row <> [] -> Z.of_nat (length row) <= p ->
  run (arr_get c rows [PInt k; PLC x]) s = (inl r, s', cs) -> sat cs ->
  exists i t, (i < length row)%nat /\ r = PLC t /\ ew x == Z.of_nat i /\ ew t == nth i (map elw row) 0.
Proof. exact (arr_get_row_forced Hp w W0 c s G O). Qed.
Theorem C15_row_write_is_exact : forall (rows : list (Api.pyval p)) k j b (row : list (Sym.slc p + Z)) x v r s' cs,
  py_index (Z.of_nat (length rows)) k = Some j -> nth j rows PNone = PArr b (map inj row) -> row <> [] -> Z.of_nat (length row) <= p ->
  Forall (fun old => same_val (PLC v) (inj old) = false) row ->
  run (arr_set c rows [PInt k; PLC x] (PLC v)) s = (inl r, s', cs) -> sat cs ->
  exists i ts, r = upd_nth rows j (PArr false (map PLC ts)) /\ length ts = length row /\ (i < length row)%nat /\ ew x == Z.of_nat i /\
               nth i (map ew ts) 0 == ew v /\ forall i', (i' < length row)%nat -> i' <> i -> nth i' (map ew ts) 0 == nth i' (map elw row) 0.
Proof. exact (arr_set_row_forced Hp w W0 c s G O). Qed.
End C15_model.
Print Assumptions C15_public_read.
Print Assumptions C15_public_write.
Print Assumptions C15_row_read_is_exact.
Print Assumptions C15_row_write_is_exact.
Print Assumptions C15_model_read_is_exact.
Print Assumptions C15_model_out_of_bounds_unprovable.
Print Assumptions C15_model_write_is_exact.
(* non-vacuity: the model's read of [10; 20; 30] at a secret index does return (a run exists), emitting constraints *)
Example C15_model_example :
  let s0 : @Gadgets.gst 65537 := upd_counters (init_gst (p:=65537)) 0 1 10 in
  exists r s' cs, run (arr_get1 {| bitlength := 8%nat; resolution := 0 |} (map inj [inr 10; inr 20; inr 30]) (PLC (var_slc (-1)))) s0 = (inl r, s', cs)
                  /\ length (cons_of cs) = 7%nat.
Proof. cbv zeta. eexists. eexists. eexists. split; [vm_compute; reflexivity|vm_compute; reflexivity]. Qed.
(* non-vacuity: the honest selectors of index 2 in an array of 4 *)
Example C15_example : selectors 65537 2 0 [0; 0; 1; 0] /\ feq 65537 (sum [0; 0; 1; 0]) 1 /\ dot [0; 0; 1; 0] [10; 20; 30; 40] = 30 /\ upd [0; 0; 1; 0] [10; 20; 30; 40] 7 = [10; 20; 7; 40].
Proof.
  assert (N : forall a b : Z, 0 <= a < 65537 -> 0 <= b < 65537 -> a <> b -> ~ feq 65537 a b).
  { intros a b Ha Hb Hn [k Hk]. assert (k = 0) by lia. lia. }
  assert (Rf : forall a : Z, feq 65537 a a) by (intros a; exists 0; lia).
  cbn [selectors Z.add]. repeat split; try reflexivity; try apply Rf; intros E;
    first [ exfalso; revert E; apply N; lia | exfalso; apply E; apply Rf | apply Rf ].
Qed.
Print Assumptions C15_access_is_exact.
Print Assumptions C15_out_of_bounds_cannot_be_proven.
