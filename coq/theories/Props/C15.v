(* C15 — secret-index array access reads and writes exactly one element.
   PARTIAL.  Proved (Proofs/ArrayCore.v), for every prime p, every array length n <= p, all contents, every index wire and
   ANY assignment satisfying the constraints of the access (selectors forced to [idx = i] by the zero-test gadget --
   C02_model_eq --, and the asserted sum of selectors = 1):
     - the index is congruent to exactly one position j < n; the read (inner product) returns the element at j;
       the write (per-position selection) puts the value at j and leaves every other element unchanged;
     - an index outside 0..n-1 admits no satisfying assignment (cannot be proven).
   Completeness of array programs (honest witness satisfies) is the C01 theorem; "identical constraints for every index
   value" is the C06 theorem.  NOT proved in Coq: that the model's arr_get/arr_set (which go through the operator dispatch)
   emit exactly the constraints the core assumes; the Array model is compared trace-for-trace with the real code, every
   generated sequence of reads and writes (1-D, 2-D, constants and secrets) is compared with plain Python lists, and
   out-of-bounds indices must raise / leave the constraint system unsatisfied. *)
From Coq Require Import ZArith List Bool Lia Znumtheory.
From PySnark.Base Require Import FieldZ.
From PySnark.Proofs Require Import ArrayCore.
Import ListNotations.
Open Scope Z_scope.

Theorem C15_access_is_exact : forall p, prime p -> forall idx es xs v,
  length xs = length es -> Z.of_nat (length es) <= p -> selectors p idx 0 es -> feq p (sum es) 1 ->
  exists j, (j < length es)%nat /\ feq p idx (Z.of_nat j) /\ feq p (dot es xs) (nth j xs 0) /\ feq p (nth j (upd es xs v) 0) v /\
            forall i, (i < length es)%nat -> i <> j -> feq p (nth i (upd es xs v) 0) (nth i xs 0).
Proof. intros p Hp. exact (array_access p Hp). Qed.
Theorem C15_out_of_bounds_cannot_be_proven : forall p, prime p -> forall idx es,
  Z.of_nat (length es) <= p -> selectors p idx 0 es -> (forall j, (j < length es)%nat -> ~ feq p idx (Z.of_nat j)) -> ~ feq p (sum es) 1.
Proof. intros p Hp. exact (out_of_bounds_unprovable p Hp). Qed.
(* non-vacuity: the honest selectors of index 2 in an array of 4 *)
Example C15_example : selectors 65537 2 0 [0; 0; 1; 0] /\ feq 65537 (sum [0; 0; 1; 0]) 1 /\ dot [0; 0; 1; 0] [10; 20; 30; 40] = 30 /\ upd [0; 0; 1; 0] [10; 20; 30; 40] 7 = [10; 20; 7; 40].
Proof.
  assert (N : forall a b : Z, 0 <= a < 65537 -> 0 <= b < 65537 -> a <> b -> ~ feq 65537 a b).
  { intros a b Ha Hb Hn [k Hk]. assert (k = 0) by lia. lia. }
  assert (Rf : forall a : Z, feq 65537 a a) by (intros a; exists 0; lia).
  cbn [selectors Z.add]. repeat split; try reflexivity; try apply Rf; intros E;
    first [ exfalso; revert E; apply N; lia | exfalso; apply E; apply Rf | apply Rf ].
Qed.
Print Assumptions C15_access_is_exact.
Print Assumptions C15_out_of_bounds_cannot_be_proven.
