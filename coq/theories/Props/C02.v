(* C02 — soundness: the constraints determine every result uniquely from its operands.
   Field-level theorems about ARBITRARY values satisfying the constraints a gadget emits (the universally
   quantified adversarial prover), for every prime p (with 2^(k+1) <= p where ranges matter).
   Status: the arithmetic cores below are proved for all widths and all primes, and they are LINKED to the model: the
   C02_model_* theorems are about the constraint lists that the model's gadgets really emit ([run]), for every assignment w
   of the variables (w 0 = 1: the constant-one wire) satisfying them, outside guarded regions or inside regions whose guard wire evaluates to 1 under w, for every bitlength
   (Proofs/Adv.v: a predicate transformer over the generator monad, sound for [run]; Proofs/AdvGadgets.v).
   Not linked: the operator dispatch above the gadgets, guarded regions (there the constraints are v*w = y+d, g*d = 0: the
   core C07_true_guard_transparent), divmod and what is built on it (refuted below).  The witness-space search on the
   R1CS captured from the real code exercises all of them.  Operations for which the property is FALSE are stated as
   _refuted with a concrete forged witness. *)
From Coq Require Import ZArith List Znumtheory Lia.
From PySnark.Base Require Import FieldZ.
From PySnark.Model Require Import Lc Sym Gadgets Api Prog.
From PySnark.Proofs Require Import Sound Meta Adv AdvGadgets AdvOps.
Import ListNotations.
Open Scope Z_scope.

Section C02.
Variable p : Z.
Hypothesis Hp : prime p.
Notation "a == b" := (feq p a b) (at level 70).
Notation isbit := (isbit p).

(* x * y : retval is the product *)
Theorem C02_mul : forall x y r, x * y == r -> r == x * y.
Proof. exact (mul_sound p). Qed.
(* x / y : add_constraint(other, res, self); unique quotient for a non-zero divisor *)
Theorem C02_truediv : forall x y r r', ~ y == 0 -> y * r == x -> y * r' == x -> r == r'.
Proof. exact (truediv_sound p Hp). Qed.
(* ==, != : (x, wit, 1 - ret), (x, ret, 0)  =>  ret = [x = 0], whatever wit is *)
Theorem C02_check_zero : forall x m r, x * m == 1 - r -> x * r == 0 -> (x == 0 -> r == 1) /\ (~ x == 0 -> r == 0).
Proof. exact (check_zero_sound p Hp). Qed.
(* LinCombBool(lc): lc * (1 - lc) = 0 forces 0 or 1 *)
Theorem C02_boolean_forced : forall b, b * (1 - b) == 0 -> b == 0 \/ b == 1.
Proof. exact (bit_cases p Hp). Qed.
(* &, |, ^, ~ on booleans stay boolean *)
Theorem C02_and : forall a b m, isbit a -> isbit b -> a * b == m -> isbit m.
Proof. exact (and_sound p Hp). Qed.
Theorem C02_or : forall a b m, isbit a -> isbit b -> a * b == m -> isbit (a + b - m).
Proof. exact (or_sound p Hp). Qed.
Theorem C02_xor : forall a b m, isbit a -> isbit b -> (2 * a) * b == m -> isbit (a + b - m).
Proof. exact (xor_sound p Hp). Qed.
Theorem C02_not : forall a, isbit a -> isbit (1 - a).
Proof. exact (not_sound p). Qed.
(* to_bits(k): booleanity of every bit + recomposition => the bits are THE bits (two satisfying assignments agree) *)
Theorem C02_to_bits : forall k bs cs x, 2 ^ Z.of_nat k <= p -> length bs = k -> length cs = k ->
  Forall (fun b => b * (1 - b) == 0) bs -> Forall (fun b => b * (1 - b) == 0) cs ->
  x == wsum bs 0 -> x == wsum cs 0 -> Forall2 (feq p) bs cs.
Proof. exact (to_bits_sound p Hp). Qed.
(* <, <=, >, >= : the outcome bit of check_positive is determined by the operand alone ... *)
Theorem C02_check_positive_unique : forall k bs bs' r r' x,
  2 ^ (Z.of_nat k + 1) <= p ->
  length bs = k -> Forall isbit bs -> isbit r -> (2 * r) * x == x + wsum bs 0 + (1 - r) ->
  length bs' = k -> Forall isbit bs' -> isbit r' -> (2 * r') * x == x + wsum bs' 0 + (1 - r') ->
  r == r'.
Proof. exact (check_positive_unique p Hp). Qed.
(* ... and it is the sign of the centred representative *)
Theorem C02_check_positive_correct : forall k bs r x v,
  2 ^ (Z.of_nat k + 1) <= p -> - 2 ^ Z.of_nat k <= v < 2 ^ Z.of_nat k -> x == v ->
  length bs = k -> Forall isbit bs -> isbit r -> (2 * r) * x == x + wsum bs 0 + (1 - r) ->
  r == (if 0 <=? v then 1 else 0).
Proof. exact (check_positive_correct p Hp). Qed.
(* if_then_else with a boolean condition: the selected value *)
Theorem C02_select : forall c t f m, isbit c -> c * (t - f) == m -> (c == 1 /\ f + m == t) \/ (c == 0 /\ f + m == f).
Proof. exact (select_sound p Hp). Qed.
End C02.

(* ---- refuted: floor division / modulo (and what is built on them: >> by a secret, fixed-point * / // %) ----
   constraints of divmod(x, y):  quo * y = x - rem,  rem < y and rem >= 0 by bit decomposition; quo has no range check.
   For x = 7, y = 2 over p = 13:  honest (quo, rem) = (3, 1); the forged (quo, rem) = (7 * 2^-1, 0) = (10, 0) satisfies them too. *)
Theorem C02_floordiv_refuted : exists p x y q r q' r',
  prime p /\ 0 <= r < y /\ 0 <= r' < y /\ feq p (q * y) (x - r) /\ feq p (q' * y) (x - r') /\ ~ feq p q q'.
Proof.
  exists 13, 7, 2, 3, 1, 10, 0. split; [|split; [lia|split; [lia|split; [|split]]]].
  - apply prime_intro; [lia|]. intros n Hn. assert (E : n = 1 \/ n = 2 \/ n = 3 \/ n = 4 \/ n = 5 \/ n = 6 \/ n = 7 \/ n = 8 \/ n = 9 \/ n = 10 \/ n = 11 \/ n = 12) by lia.
    repeat (destruct E as [->|E]); try subst n; apply Zgcd_1_rel_prime; reflexivity.
  - exists 0. reflexivity.
  - exists 1. reflexivity.
  - intros [k Hk]. lia.
Qed.
(* ---- refuted: x & k, x | k, x ^ k with an int k: the result is a fresh witness and NO constraint is emitted,
        so every value of that witness is accepted (model of LinComb.__and__/__or__/__xor__ with an int operand) ---- *)
Theorem C02_bitop_with_int_refuted :
  let run op := model_run (p:=13) {| bitlength := 2%nat; resolution := 0 |} [SInput 0 IPriv 0; SConst 1 (LInt 3); SBin 2 op 0 1] [2] false in
  cons (run OAnd) = [] /\ cons (run OOr) = [] /\ cons (run OXor) = [] /\ kinds (run OAnd) = [Priv; Priv].
Proof. vm_compute. repeat split; reflexivity. Qed.

(* ---- the same for the constraints the MODEL emits ---- *)
Section C02_model.
Variable p : Z.
Hypothesis Hp : prime p.
Variable w : var -> Z.
Hypothesis W0 : w 0 = 1.
Variable c : cfg.
Variable s : @Gadgets.gst p.
Hypothesis G : AdvGadgets.Gok w s.     (* no active guard, or the active guard wire evaluates to 1 under w (a true guard is transparent) *)
Notation "a == b" := (feq p a b) (at level 70).
Notation ew := (AdvGadgets.ew w).
Notation sat cs := (Forall (holds (p:=p) w) (cons_of cs)).

Theorem C02_model_mul : forall x y r s' cs, run (mul x y) s = (inl r, s', cs) -> sat cs -> ew r == ew x * ew y.
Proof. exact (mul_forced w s). Qed.
Theorem C02_model_eq : forall x y r s' cs, run (eq x y) s = (inl r, s', cs) -> sat cs -> (ew x == ew y -> ew r == 1) /\ (~ ew x == ew y -> ew r == 0).
Proof. exact (eq_forced Hp w W0 s). Qed.
Theorem C02_model_lt : forall x y r s' cs vx vy, run (lt c x y) s = (inl r, s', cs) -> sat cs ->
  2 ^ (Z.of_nat (nbits c) + 1) <= p -> ew x == vx -> ew y == vy -> - 2 ^ Z.of_nat (nbits c) <= vy - vx - 1 < 2 ^ Z.of_nat (nbits c) ->
  ew r == (if vx <? vy then 1 else 0).
Proof. exact (lt_forced Hp w W0 c s G). Qed.
Theorem C02_model_le : forall x y r s' cs vx vy, run (le c x y) s = (inl r, s', cs) -> sat cs ->
  2 ^ (Z.of_nat (nbits c) + 1) <= p -> ew x == vx -> ew y == vy -> - 2 ^ Z.of_nat (nbits c) <= vy - vx < 2 ^ Z.of_nat (nbits c) ->
  ew r == (if vx <=? vy then 1 else 0).
Proof. exact (le_forced Hp w W0 c s G). Qed.
Theorem C02_model_gt : forall x y r s' cs vx vy, run (gt c x y) s = (inl r, s', cs) -> sat cs ->
  2 ^ (Z.of_nat (nbits c) + 1) <= p -> ew x == vx -> ew y == vy -> - 2 ^ Z.of_nat (nbits c) <= vx - vy - 1 < 2 ^ Z.of_nat (nbits c) ->
  ew r == (if vy <? vx then 1 else 0).
Proof. exact (gt_forced Hp w W0 c s G). Qed.
Theorem C02_model_ge : forall x y r s' cs vx vy, run (ge c x y) s = (inl r, s', cs) -> sat cs ->
  2 ^ (Z.of_nat (nbits c) + 1) <= p -> ew x == vx -> ew y == vy -> - 2 ^ Z.of_nat (nbits c) <= vx - vy < 2 ^ Z.of_nat (nbits c) ->
  ew r == (if vy <=? vx then 1 else 0).
Proof. exact (ge_forced Hp w W0 c s G). Qed.
Theorem C02_model_bit_and : forall a b r s' cs, run (bit_and a b) s = (inl r, s', cs) -> sat cs -> Sound.isbit p (ew a) -> Sound.isbit p (ew b) ->
  ew r == ew a * ew b /\ Sound.isbit p (ew r).
Proof. exact (bit_and_forced Hp w s). Qed.
Theorem C02_model_bit_or : forall a b r s' cs, run (bit_or a b) s = (inl r, s', cs) -> sat cs -> Sound.isbit p (ew a) -> Sound.isbit p (ew b) ->
  ew r == ew a + ew b - ew a * ew b /\ Sound.isbit p (ew r).
Proof. exact (bit_or_forced Hp w s). Qed.
Theorem C02_model_bit_xor : forall a b r s' cs, run (bit_xor a b) s = (inl r, s', cs) -> sat cs -> Sound.isbit p (ew a) -> Sound.isbit p (ew b) ->
  ew r == ew a + ew b - 2 * ew a * ew b /\ Sound.isbit p (ew r).
Proof. exact (bit_xor_forced Hp w s). Qed.
Theorem C02_model_ne : forall x y r s' cs, run (ne x y) s = (inl r, s', cs) -> sat cs -> (ew x == ew y -> ew r == 0) /\ (~ ew x == ew y -> ew r == 1).
Proof. exact (ne_forced Hp w W0 s). Qed.
Theorem C02_model_sign : forall x k r s' cs, run (check_positive x k) s = (inl r, s', cs) -> sat cs ->
  (ew r == 1 /\ exists v, 0 <= v < 2 ^ Z.of_nat k /\ ew x == v) \/ (ew r == 0 /\ exists v, - 2 ^ Z.of_nat k <= v < 0 /\ ew x == v).
Proof. exact (check_positive_forced Hp w W0 s G). Qed.
Theorem C02_model_to_bits : forall x k bs s' cs, run (to_bits x k) s = (inl bs, s', cs) -> sat cs ->
  length bs = k /\ Forall (fun b => Sound.isbit p (ew b)) bs /\ ew x == wsum (map ew bs) 0 /\ exists v, 0 <= v < 2 ^ Z.of_nat k /\ ew x == v.
Proof. exact (to_bits_forced Hp w W0 s G). Qed.
Theorem C02_model_select : forall cnd t f r s' cs, run (ite_lc cnd t f) s = (inl r, s', cs) -> sat cs -> Sound.isbit p (ew cnd) ->
  (ew cnd == 1 /\ ew r == ew t) \/ (ew cnd == 0 /\ ew r == ew f).
Proof. exact (select_forced Hp w s). Qed.
Theorem C02_model_truediv : forall x y r s' cs, run (truediv x y) s = (inl r, s', cs) -> sat cs -> ~ ew y == 0 -> ew y * ew r == ew x.
Proof. exact (truediv_forced w s G). Qed.
(* ---- one level up: the Python operators on two secret integers, through the model of the operator dispatch ---- *)
Local Notation isb := (AdvOps.isb w).
Local Notation islc := (AdvOps.islc w).
Theorem C02_op_lt : forall x y r s' cs vx vy, run (pyop c OLt (PLC x) (PLC y)) s = (inl r, s', cs) -> sat cs ->
  2 ^ (Z.of_nat (nbits c) + 1) <= p -> ew x == vx -> ew y == vy -> - 2 ^ Z.of_nat (nbits c) <= vy - vx - 1 < 2 ^ Z.of_nat (nbits c) ->
  isb (fun b => b == (if vx <? vy then 1 else 0)) r.
Proof. exact (op_lt_forced Hp w W0 c s G). Qed.
Theorem C02_op_le : forall x y r s' cs vx vy, run (pyop c OLe (PLC x) (PLC y)) s = (inl r, s', cs) -> sat cs ->
  2 ^ (Z.of_nat (nbits c) + 1) <= p -> ew x == vx -> ew y == vy -> - 2 ^ Z.of_nat (nbits c) <= vy - vx < 2 ^ Z.of_nat (nbits c) ->
  isb (fun b => b == (if vx <=? vy then 1 else 0)) r.
Proof. exact (op_le_forced Hp w W0 c s G). Qed.
Theorem C02_op_eq : forall x y r s' cs, run (pyop c OEq (PLC x) (PLC y)) s = (inl r, s', cs) -> sat cs ->
  isb (fun b => (ew x == ew y -> b == 1) /\ (~ ew x == ew y -> b == 0)) r.
Proof. exact (op_eq_forced Hp w W0 c s). Qed.
Theorem C02_op_mul : forall x y r s' cs, run (pyop c OMul (PLC x) (PLC y)) s = (inl r, s', cs) -> sat cs -> islc (fun v => v == ew x * ew y) r.
Proof. exact (op_mul_forced w c s). Qed.
Theorem C02_op_add : forall x y r s' cs, run (pyop c OAdd (PLC x) (PLC y)) s = (inl r, s', cs) -> islc (fun v => v = ew x + ew y) r /\ cs = [].
Proof. exact (op_add_forced w c s G). Qed.
Theorem C02_op_sub : forall x y r s' cs, run (pyop c OSub (PLC x) (PLC y)) s = (inl r, s', cs) -> islc (fun v => v = ew x - ew y) r /\ cs = [].
Proof. exact (op_sub_forced w c s G). Qed.
Theorem C02_op_select : forall o cb t f r s' cs, same_val (PLC t) (PLC f) = false ->
  run (if_then_else c (pyop c) (PBool o cb) (PLC t) (PLC f)) s = (inl r, s', cs) -> sat cs -> Sound.isbit p (ew cb) ->
  islc (fun v => (ew cb == 1 /\ v == ew t) \/ (ew cb == 0 /\ v == ew f)) r.
Proof. exact (op_select_forced Hp w c s). Qed.
Theorem C02_op_gt : forall x y r s' cs vx vy, run (pyop c OGt (PLC x) (PLC y)) s = (inl r, s', cs) -> sat cs ->
  2 ^ (Z.of_nat (nbits c) + 1) <= p -> ew x == vx -> ew y == vy -> - 2 ^ Z.of_nat (nbits c) <= vx - vy - 1 < 2 ^ Z.of_nat (nbits c) ->
  isb (fun b => b == (if vy <? vx then 1 else 0)) r.
Proof. exact (op_gt_forced Hp w W0 c s G). Qed.
Theorem C02_op_ge : forall x y r s' cs vx vy, run (pyop c OGe (PLC x) (PLC y)) s = (inl r, s', cs) -> sat cs ->
  2 ^ (Z.of_nat (nbits c) + 1) <= p -> ew x == vx -> ew y == vy -> - 2 ^ Z.of_nat (nbits c) <= vx - vy < 2 ^ Z.of_nat (nbits c) ->
  isb (fun b => b == (if vy <=? vx then 1 else 0)) r.
Proof. exact (op_ge_forced Hp w W0 c s G). Qed.
Theorem C02_op_ne : forall x y r s' cs, run (pyop c ONe (PLC x) (PLC y)) s = (inl r, s', cs) -> sat cs ->
  isb (fun b => (ew x == ew y -> b == 0) /\ (~ ew x == ew y -> b == 1)) r.
Proof. exact (op_ne_forced Hp w W0 c s). Qed.
Theorem C02_op_truediv : forall x y r s' cs, run (pyop c OTrueDiv (PLC x) (PLC y)) s = (inl r, s', cs) -> sat cs -> islc (fun v => ew y * v == ew x) r.
Proof. exact (op_truediv_forced w c s G). Qed.
End C02_model.
Print Assumptions C02_op_gt.
Print Assumptions C02_op_ge.
Print Assumptions C02_op_ne.
Print Assumptions C02_op_truediv.

Print Assumptions C02_model_lt.
Print Assumptions C02_op_lt.
Print Assumptions C02_op_le.
Print Assumptions C02_op_eq.
Print Assumptions C02_op_mul.
Print Assumptions C02_op_add.
Print Assumptions C02_op_sub.
Print Assumptions C02_op_select.
Print Assumptions C02_model_bit_or.
Print Assumptions C02_model_bit_xor.
Print Assumptions C02_model_ne.
Print Assumptions C02_model_eq.
Print Assumptions C02_model_to_bits.
Print Assumptions C02_mul.
Print Assumptions C02_truediv.
Print Assumptions C02_check_zero.
Print Assumptions C02_boolean_forced.
Print Assumptions C02_to_bits.
Print Assumptions C02_check_positive_unique.
Print Assumptions C02_check_positive_correct.
Print Assumptions C02_select.
Print Assumptions C02_floordiv_refuted.
