(* C03 — assertions and declared types are enforced inside the circuit.
   Field-level theorems: whenever ANY assignment satisfies the constraints an assertion emits, the asserted
   relation holds of the operand values (so a false relation is unprovable whatever the auxiliary witness).
   The converse (true relation + accepted call => the recorded witness satisfies) is completeness (C01) and is
   checked on every accepted case by the harness.  "Same relation as the run-time check" is decided per case by
   the harness (run-time acceptance <-> satisfiability of the captured R1CS, complete on small fields).
   The C03_model_* theorems link the cores to the constraint lists the model's gadgets really emit (outside guarded regions or under a guard wire evaluating to 1,
   every bitlength, every assignment): Proofs/Adv.v, Proofs/AdvGadgets.v. *)
From Coq Require Import ZArith List Znumtheory Lia.
From PySnark.Base Require Import FieldZ.
From PySnark.Model Require Import Lc Sym Gadgets Api Prog.
From PySnark.Proofs Require Import Sound Meta Adv AdvGadgets AssertDispatch.
Import ListNotations.
Open Scope Z_scope.

Section C03.
Variable p : Z.
Hypothesis Hp : prime p.
Notation "a == b" := (feq p a b) (at level 70).
Notation isbit := (isbit p).

(* assert_zero / assert_eq :  0 * 0 = x - y *)
Theorem C03_assert_eq : forall x y, 0 * 0 == x - y -> x == y.
Proof. intros x y H. apply (assert_zero_sound p) in H. transitivity (y + (x - y)); [apply eq_feq; ring|]. rewrite H. apply eq_feq; ring. Qed.
(* assert_nonzero / assert_ne :  (x - y) * wit = 1 *)
Theorem C03_assert_ne : forall x y w, (x - y) * w == 1 -> ~ x == y.
Proof. intros x y w H E. apply (assert_nonzero_sound p Hp _ _ H). rewrite E. apply eq_feq; ring. Qed.
(* n-bit declaration (to_bits(k), assert_positive(k)): k boolean bits recomposing x  =>  x is congruent to some 0 <= v < 2^k *)
Theorem C03_nbit : forall k bs x, length bs = k -> Forall isbit bs -> x == wsum bs 0 -> exists v, 0 <= v < 2 ^ Z.of_nat k /\ x == v.
Proof. exact (to_bits_rejects p Hp). Qed.
(* assert_lt / le / gt / ge reduce to assert_positive of a difference d:  d = y - x - 1, y - x, x - y - 1, x - y *)
Theorem C03_assert_lt : forall k bs x y, length bs = k -> Forall isbit bs -> y - x - 1 == wsum bs 0 ->
  exists v, 0 <= v < 2 ^ Z.of_nat k /\ y - x - 1 == v.
Proof. intros k bs x y. exact (to_bits_rejects p Hp k bs (y - x - 1)). Qed.
(* with integer operands that are small relative to p the relation itself follows *)
Theorem C03_assert_lt_int : forall k bs (x y : Z), 2 ^ Z.of_nat k <= p -> - (p - 2 ^ Z.of_nat k) < y - x - 1 < p ->
  length bs = k -> Forall isbit bs -> y - x - 1 == wsum bs 0 -> x < y.
Proof.
  intros k bs x y Hk Hr L Hb H. destruct (to_bits_rejects p Hp k bs (y - x - 1) L Hb H) as [v [Rv E]].
  destruct (Z.lt_ge_cases x y) as [|G]; [assumption|exfalso].
  apply (feq_small_false p (v - (y - x - 1))); [lia|]. rewrite <- E. apply eq_feq; ring.
Qed.
(* boolean declaration *)
Theorem C03_boolean : forall b, b * (1 - b) == 0 -> b == 0 \/ b == 1.
Proof. exact (bit_cases p Hp). Qed.
(* range: both halves are n-bit declarations of x - lo and hi - x - 1 *)
Theorem C03_assert_range_int : forall k bs cs (x lo hi : Z), 2 ^ Z.of_nat k <= p ->
  - (p - 2 ^ Z.of_nat k) < x - lo < p -> - (p - 2 ^ Z.of_nat k) < hi - x - 1 < p ->
  length bs = k -> Forall isbit bs -> x - lo == wsum bs 0 ->
  length cs = k -> Forall isbit cs -> hi - x - 1 == wsum cs 0 -> lo <= x < hi.
Proof.
  intros k bs cs x lo hi Hk R1 R2 L1 B1 H1 L2 B2 H2.
  destruct (to_bits_rejects p Hp k bs _ L1 B1 H1) as [v [Rv E]], (to_bits_rejects p Hp k cs _ L2 B2 H2) as [u [Ru F]].
  split.
  - destruct (Z.le_gt_cases lo x) as [|G]; [assumption|exfalso].
    apply (feq_small_false p (v - (x - lo))); [lia|]. rewrite <- E. apply eq_feq; ring.
  - destruct (Z.lt_ge_cases x hi) as [|G]; [assumption|exfalso].
    apply (feq_small_false p (u - (hi - x - 1))); [lia|]. rewrite <- F. apply eq_feq; ring.
Qed.
End C03.
Section C03_model.
Variable p : Z.
Hypothesis Hp : prime p.
Variable w : var -> Z.
Hypothesis W0 : w 0 = 1.
Variable c : cfg.
Variable s : @Gadgets.gst p.
Hypothesis G : AdvGadgets.Gok w s.     (* no active guard, or the active guard wire evaluates to 1 under w (a true guard is transparent) *)
Notation "a == b" := (feq p a b) (at level 70).
Notation ew := (AdvGadgets.ew w).
Notation sat cs := (Forall (holds (p:=p) w) (cons_of cs)).
(* assert_positive(bits=k) / to_bits(k): any satisfying assignment puts the operand in [0, 2^k) -- k is the width enforced *)
Theorem C03_model_assert_positive : forall x k u s' cs, run (assert_positive x k) s = (inl u, s', cs) -> sat cs -> exists v, 0 <= v < 2 ^ Z.of_nat k /\ ew x == v.
Proof. exact (assert_positive_forced Hp w W0 s G). Qed.
(* assert_lt: y - x - 1 is forced into [0, 2^bitlength): with operands small relative to p, x < y *)
Theorem C03_model_assert_lt : forall x y u s' cs, run (assert_lt c x y) s = (inl u, s', cs) -> sat cs ->
  exists v, 0 <= v < 2 ^ Z.of_nat (nbits c) /\ ew y - ew x - 1 == v.
Proof. exact (assert_lt_forced Hp w W0 c s G). Qed.
Theorem C03_model_assert_le : forall x y u s' cs, run (assert_le c x y) s = (inl u, s', cs) -> sat cs ->
  exists v, 0 <= v < 2 ^ Z.of_nat (nbits c) /\ ew y - ew x == v.
Proof. exact (assert_le_forced Hp w W0 c s G). Qed.
Theorem C03_model_assert_gt : forall x y u s' cs, run (assert_gt c x y) s = (inl u, s', cs) -> sat cs ->
  exists v, 0 <= v < 2 ^ Z.of_nat (nbits c) /\ ew x - ew y - 1 == v.
Proof. exact (assert_gt_forced Hp w W0 c s G). Qed.
Theorem C03_model_assert_ge : forall x y u s' cs, run (assert_ge c x y) s = (inl u, s', cs) -> sat cs ->
  exists v, 0 <= v < 2 ^ Z.of_nat (nbits c) /\ ew x - ew y == v.
Proof. exact (assert_ge_forced Hp w W0 c s G). Qed.
(* assert_eq / assert_ne / assert_nonzero: an accepted proof implies the relation between the wires *)
Theorem C03_model_assert_eq : forall x y u s' cs, run (assert_eq x y) s = (inl u, s', cs) -> sat cs -> ew x == ew y.
Proof. exact (assert_eq_forced w s G). Qed.
Theorem C03_model_assert_ne : forall x y u s' cs, ew (one s) == 1 -> run (assert_ne x y) s = (inl u, s', cs) -> sat cs -> ~ ew x == ew y.
Proof. exact (assert_ne_forced Hp w s G). Qed.
Theorem C03_model_assert_nonzero : forall x u s' cs, ew (one s) == 1 -> run (assert_nonzero x) s = (inl u, s', cs) -> sat cs -> ~ ew x == 0.
Proof. exact (assert_nonzero_forced Hp w s G). Qed.
(* assert_range(lo, hi) for integer-valued wires inside the bitlength range: lo <= x < hi, the upper bound EXCLUSIVE *)
Theorem C03_model_assert_range : forall vx lo hi x xlo xhi u s' cs, run (assert_range c x xlo xhi) s = (inl u, s', cs) -> sat cs ->
  2 ^ (Z.of_nat (nbits c) + 1) <= p -> ew x == vx -> ew xlo == lo -> ew xhi == hi ->
  - 2 ^ Z.of_nat (nbits c) <= vx - lo < 2 ^ Z.of_nat (nbits c) -> - 2 ^ Z.of_nat (nbits c) <= hi - vx - 1 < 2 ^ Z.of_nat (nbits c) -> lo <= vx < hi.
Proof. exact (assert_range_int Hp w W0 c s G). Qed.
End C03_model.
(* The comparison assertions of ALL THREE secret classes through the method dispatch (gen_meth: LinComb.assert_*, LinCombBool.assert_*,
   LinCombFxp.assert_* with an operand of the same class, or for fixed point an int k / a secret integer y standing for k * 2^r / y * 2^r):
   any assignment satisfying what the call emits puts the two wires in the asserted relation ([forced]: a difference forced into
   [0, 2^bitlength), equality, or inequality mod p). *)
Section C03_dispatch.
Variable p : Z.
Hypothesis Hp : prime p.
Variable w : var -> Z.
Hypothesis W0 : w 0 = 1.
Variable c : cfg.
Variable s : @Gadgets.gst p.
Hypothesis G : AdvGadgets.Gok w s.
Hypothesis O : AdvGadgets.Oone w s.
Notation ew := (AdvGadgets.ew w).
Notation sat cs := (Forall (holds (p:=p) w) (cons_of cs)).
Theorem C03_class_assertions_force_the_relation : forall m recv o x y r s' cs,
  AssertDispatch.is_cmp m = true -> AssertDispatch.wires c recv o = Some (x, y) ->
  run (Prog.gen_meth c m recv [o]) s = (inl r, s', cs) -> sat cs -> AssertDispatch.forced (p:=p) c m (ew x) (ew y).
Proof. exact (AssertDispatch.meth_assert_forced Hp w W0 c s G O). Qed.
(* what [wires] are: the receiver's wire and the operand's wire; a fixed-point receiver scales an int / secret-int operand by 2^r *)
Theorem C03_class_assertion_wires : forall f g (x y : Sym.slc p) k,
  AssertDispatch.wires c (Api.PLC x) (Api.PLC y) = Some (x, y) /\ AssertDispatch.wires c (Api.PBool f x) (Api.PBool g y) = Some (x, y) /\
  AssertDispatch.wires c (Api.PFxp f x) (Api.PFxp g y) = Some (x, y) /\
  (exists yk, AssertDispatch.wires c (Api.PFxp f x) (Api.PInt k) = Some (x, yk) /\ ew yk = k * R c) /\
  (exists ys, AssertDispatch.wires c (Api.PFxp f x) (Api.PLC y) = Some (x, ys) /\ ew ys = ew y * R c).
Proof.
  intros f g x y k. repeat split.
  - eexists. split; [reflexivity|]. apply (AssertDispatch.ew_fxp_int w W0).
  - eexists. split; [reflexivity|]. apply AssertDispatch.ew_fxp_lc.
Qed.
(* the unary assertions of the three classes act on the receiver's wire *)
Theorem C03_class_assert_zero : forall recv x r s' cs, AssertDispatch.unary_wire recv = Some x ->
  run (Prog.gen_meth c Prog.MAssertZero recv []) s = (inl r, s', cs) -> sat cs -> feq p (ew x) 0.
Proof. intros recv x r s' cs. eapply AssertDispatch.meth_assert_zero_forced; eassumption. Qed.
Theorem C03_class_assert_nonzero : forall recv x r s' cs, AssertDispatch.unary_wire recv = Some x ->
  run (Prog.gen_meth c Prog.MAssertNonzero recv []) s = (inl r, s', cs) -> sat cs -> ~ feq p (ew x) 0.
Proof. intros recv x r s' cs. eapply AssertDispatch.meth_assert_nonzero_forced; eassumption. Qed.
Theorem C03_class_assert_positive : forall recv x r s' cs, AssertDispatch.unary_wire recv = Some x ->
  run (Prog.gen_meth c (Prog.MAssertPositive None) recv []) s = (inl r, s', cs) -> sat cs -> exists v, 0 <= v < 2 ^ Z.of_nat (nbits c) /\ feq p (ew x) v.
Proof. intros recv x r s' cs. eapply AssertDispatch.meth_assert_positive_forced; eassumption. Qed.
End C03_dispatch.
Print Assumptions C03_class_assert_zero.
Print Assumptions C03_class_assert_nonzero.
Print Assumptions C03_class_assert_positive.
Print Assumptions C03_class_assertions_force_the_relation.
(* non-vacuity: LinCombFxp.assert_lt(3) on a secret fixed-point number runs in the model and emits constraints *)
Example C03_dispatch_example :
  let s0 : @Gadgets.gst 65537 := upd_counters (init_gst (p:=65537)) 0 1 10 in
  exists r s' cs, run (Prog.gen_meth {| bitlength := 8%nat; resolution := 2 |} Prog.MAssertLt (Api.PFxp 0 (var_slc (-1))) [Api.PInt 3]) s0 = (inl r, s', cs)
                  /\ (0 < length (cons_of cs))%nat.
Proof. cbv zeta. eexists. eexists. eexists. split; [vm_compute; reflexivity|vm_compute; lia]. Qed.
Print Assumptions C03_model_assert_le.
Print Assumptions C03_model_assert_gt.
Print Assumptions C03_model_assert_ge.
Print Assumptions C03_model_assert_eq.
Print Assumptions C03_model_assert_ne.
Print Assumptions C03_model_assert_nonzero.
Print Assumptions C03_model_assert_range.
Print Assumptions C03_model_assert_positive.
Print Assumptions C03_model_assert_lt.
Print Assumptions C03_assert_eq.
Print Assumptions C03_assert_ne.
Print Assumptions C03_nbit.
Print Assumptions C03_assert_lt_int.
Print Assumptions C03_assert_range_int.
