(* C20 — hash gadgets equal a plain reference and use the active backend's parameters.
   [Model/Hash.v] is a plain Z-mod-p Poseidon (and subset-sum hash) written from the algorithm description; the
   parameter sets are translated from pysnark/poseidon_constants.py on every run.
   Proved / re-checked by the kernel on every run:
     - the plain reference on the translated bn128 and bls12-381 parameter sets reproduces the published
       permutation test vectors (a changed constant, round count or matrix entry breaks this obligation);
     - padding is injective: messages of different List.length never share a padded form, and the message is
       recovered from its padded form;
     - the parameter set in use is the one registered under the name of the selected backend; the toy set
       is only ever used for the backend called nobackend (decision model; the selection itself is C19).
   "Traced gadget = plain reference on EVERY input" is proved about the model (Proofs/PoseidonValues.v over the wp calculus):
   for every prime p, every parameter set with a positive S-box exponent, every input vector and every generator state
   satisfying the invariant, the model's traced permutation (S-boxes by multiplication gadgets, linear layers reduced modulo p)
   returns field elements congruent to the reference permutation of the input values (C20_permutation_equals_reference), the
   sponge -- padding with LinComb.ONE and zeros, absorption, one permutation per block -- to the reference hash
   (C20_sponge_equals_reference, outside guarded regions), and the subset-sum hash of secret bits to the reference subset sum
   (C20_subset_sum_equals_reference).  The model is tied to the real traced gadgets by the trace correspondence (toy parameter
   set in-kernel; real sets against the plain-Python reference of the harness).
   Input-independence of the constraint count is the C06 theorem (SPermute/SPoseidon are ordinary statements). *)
From Coq Require Import ZArith List Bool String Lia.
From PySnark Require Import Generated GeneratedPoseidon.
From Coq Require Import Znumtheory.
From PySnark.Base Require Import FieldZ.
From PySnark.Model Require Import Lc Sym Gadgets Api Hash Prog.
From PySnark.Proofs Require Import PoseidonVectors Meta FieldOk Wp WpBase PoseidonValues.
Import ListNotations.
Open Scope Z_scope.

Theorem C20_vector_bn128 :
  permute_ref zkif_modulus poseidon_zkinterface [0; 1; 2; 3; 4] =
  [0x299c867db6c1fdd79dcefa40e4510b9837e60ebb1ce0663dbaa525df65250465; 0x1148aaef609aa338b27dafd89bb98862d8bb2b429aceac47d86206154ffe053d;
   0x24febb87fed7462e23f6665ff9a0111f4044c38ee1672c1ac6b0637d34f24907; 0x0eb08f6d809668a981c186beaf6110060707059576406b248e5d9cf6e78b3d3e;
   0x07748bc6877c9b82c8b98666ee9d0626ec7f5be4205f79ee8528ef1c4a376fc7].
Proof. exact vector_bn128. Qed.
Theorem C20_vector_bls12_381 :
  permute_ref bellman_modulus poseidon_zkifbellman [0; 1; 2; 3; 4] =
  [0x2a918b9c9f9bd7bb509331c81e297b5707f6fc7393dcee1b13901a0b22202e18; 0x65ebf8671739eeb11fb217f2d5c5bf4a0c3f210e3f3cd3b08b5db75675d797f7;
   0x2cc176fc26bc70737a696a9dfd1b636ce360ee76926d182390cdb7459cf585ce; 0x4dc4e29d283afd2a491fe6aef122b9a968e74eff05341f3cc23fda1781dcb566;
   0x03ff622da276830b9451b88b85e6184fd6ae15c8ab3ee25a5667be8592cce3b1].
Proof. exact vector_bls12_381. Qed.

(* padding *)
Lemma pad_length_pos r l : (0 < r)%nat -> exists k, pad r l = l ++ 1 :: repeat 0 k.
Proof. intros _. unfold pad. eexists. reflexivity. Qed.
Theorem C20_padding_injective : forall r l1 l2, pad r l1 = pad r l2 -> l1 = l2.
Proof.
  intros r l1 l2. unfold pad. set (k1 := (r - List.length l1 mod r - 1)%nat). set (k2 := (r - List.length l2 mod r - 1)%nat). clearbody k1 k2.
  revert l2. induction l1 as [|a l1 IH]; intros [|b l2] H; cbn in H.
  - reflexivity.
  - exfalso. inversion H as [[Hb Hr]]. destruct l2 as [|c l2]; cbn in Hr.
    + destruct k1; cbn in Hr; discriminate Hr.
    + assert (In 1 (repeat 0 k1)) by (rewrite Hr; right; apply in_or_app; right; left; reflexivity).
      apply repeat_spec in H0. discriminate H0.
  - exfalso. inversion H as [[Ha Hr]]. destruct l1 as [|c l1]; cbn in Hr.
    + destruct k2; cbn in Hr; discriminate Hr.
    + assert (In 1 (repeat 0 k2)) by (rewrite <- Hr; right; apply in_or_app; right; left; reflexivity).
      apply repeat_spec in H0. discriminate H0.
  - inversion H as [[Hab Hr]]. f_equal. apply IH. exact Hr.
Qed.
Theorem C20_padded_length_is_a_multiple_of_the_rate : forall r l, (0 < r)%nat -> (List.length (pad r l) mod r = 0)%nat.
Proof.
  intros r l Hr. unfold pad. rewrite !app_length, repeat_length. cbn [length].
  pose proof (Nat.mod_upper_bound (List.length l) r ltac:(lia)) as B.
  pose proof (Nat.div_mod (List.length l) r ltac:(lia)) as D.
  change (List.length [1]) with 1%nat.
  replace (List.length l + (1 + (r - List.length l mod r - 1)))%nat with ((List.length l / r + 1) * r)%nat by lia.
  apply Nat.mod_mul. lia.
Qed.

(* the parameter set used is the one registered under the selected backend's name *)
Open Scope string_scope.
Definition params_for (backend_name : string) : option poseidon_params :=
  match find (fun np => String.eqb backend_name (fst np)) poseidon_table with Some np => Some (snd np) | None => None end.
Theorem C20_parameters_by_selected_backend :
  params_for "zkinterface" = Some poseidon_zkinterface /\ params_for "zkifbellman" = Some poseidon_zkifbellman /\
  params_for "zkifbulletproofs" = Some poseidon_zkifbulletproofs /\ params_for "nobackend" = Some poseidon_nobackend /\
  params_for "snarkjs" = None /\ params_for "qaptools" = None /\ params_for "libsnark" = None.
Proof. repeat split; reflexivity. Qed.
(* the real parameter sets have the security-relevant shape (8 full, 60 partial rounds, width 5, x^5); the toy set does not *)
Theorem C20_real_parameter_shape :
  Forall (fun ps => R_F ps = 8 /\ R_P ps = 60 /\ pt ps = 5 /\ pa ps = 5 /\ List.length (round_constants ps) = 68%nat /\ List.length (matrix ps) = 5%nat)
         [poseidon_zkinterface; poseidon_zkifbellman; poseidon_zkifbulletproofs].
Proof. repeat constructor. Qed.

(* ---- the traced gadgets equal the plain reference on every input (model level) ---- *)
Section C20_values.
Variable p : Z.
Hypothesis Hp : prime p.
Variables (ins : list Z) (ig : bool).
Local Notation F := (field_ok_prime p Hp).
Local Notation cong := (PoseidonValues.cong (p:=p) ins ig).
Local Notation scs := (PoseidonValues.scs (p:=p)).
(* [wp m s sg Q] for every Q implied by the stated facts = every run of m from a state satisfying the invariant that does not
   raise ends in a state with those facts (Wp.wp_sound) *)
Theorem C20_permutation_equals_reference : forall (ps : poseidon_params), 1 <= pa ps ->
  forall st vals (s : @Gadgets.gst p) sg (Q : list (Sym.slc p) -> @Gadgets.gst p -> store -> Prop),
  WpBase.Inv ins ig s sg -> scs s st -> cong sg st vals ->
  (forall out s' sg', WpBase.Inv ins ig s' sg' -> ext sg sg' -> scs s' out -> cong sg' out (permute_ref p ps vals) -> Q out s' sg') ->
  Wp.wp ins ig (permute_m ps st) s sg Q.
Proof. intros ps Ha st vals s sg Q. exact (permute_value ins ig F ps Ha st vals s sg Q). Qed.
Theorem C20_sponge_equals_reference : forall (ps : poseidon_params) (msg : list (Sym.slc p)) (vals : list Z) (s : @Gadgets.gst p) sg
  (Q : list (Sym.slc p) -> @Gadgets.gst p -> store -> Prop),
  1 <= pa ps -> WpBase.Inv ins ig s sg -> guard s = None -> scs s msg -> cong sg msg vals ->
  (forall out s' sg', WpBase.Inv ins ig s' sg' -> ext sg sg' -> cong sg' out (hash_ref p ps vals) -> Q out s' sg') ->
  Wp.wp ins ig (poseidon_hash_m ps msg) s sg Q.
Proof. exact (hash_value ins ig F). Qed.
Theorem C20_subset_sum_equals_reference : forall (c : cfg) (x : Sym.slc p) xs k ks sg,
  exists r, ggh_m c (k :: ks) (map (@PLC p) (x :: xs)) = Gadgets.ret (PLC r) /\
            feq p (vz ins ig sg r) (ggh_ref p (k :: ks) (map (vz ins ig sg) (x :: xs))).
Proof. intros c. exact (ggh_value ins ig F c). Qed.
End C20_values.

(* non-vacuity of the hypotheses: five secret inputs 1..5 held by five witnesses *)
Example C20_values_example :
  let s : @Gadgets.gst 65537 := upd_counters (init_gst (p:=65537)) 0 5 10 in
  let sg := {| pubs := []; privs := [1; 2; 3; 4; 5] |} in
  let st := map (fun i => var_slc (p:=65537) (- i)) [1; 2; 3; 4; 5] in
  WpBase.Inv [] false s sg /\ PoseidonValues.scs s st /\ PoseidonValues.cong [] false sg st [1; 2; 3; 4; 5] /\ 1 <= pa poseidon_zkinterface.
Proof.
  cbv zeta. split; [split; [split; reflexivity|split; [reflexivity|split; reflexivity]]|].
  split; [repeat constructor|]. split; [|vm_compute; discriminate].
  repeat constructor; exists 0; vm_compute; reflexivity.
Qed.

Print Assumptions C20_permutation_equals_reference.
Print Assumptions C20_sponge_equals_reference.
Print Assumptions C20_subset_sum_equals_reference.
Print Assumptions C20_padding_injective.
