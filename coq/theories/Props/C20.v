(* C20 — hash gadgets equal a plain reference and use the active backend's parameters.
   [Model/Hash.v] is a plain Z-mod-p Poseidon (and subset-sum hash) written from the algorithm description; the
   parameter sets are translated from pysnark/poseidon_constants.py on every run.
   Proved / re-checked by the kernel on every run:
     - the plain reference on the translated bn128 and bls12-381 parameter sets reproduces the published
       permutation test vectors (a changed constant, round count or matrix entry breaks this obligation);
     - padding is injective: messages of different List.length never share a padded form, and the message is
       recovered from its padded form;
     - the parameter set in use is the one registered under the name of the selected backend; the toy set
       is only ever used for the backend called nobackend (decision model; the selection itself is C19).
   PARTIAL: "traced gadget = plain reference on every input" is established by trace correspondence (model of the
   traced gadget = real trace) plus in-kernel evaluation of model and reference on the sampled inputs, and by the
   plain-Python reference in the harness; a proof for all inputs needs the value semantics of [mul] and is not done.
   Input-independence of the constraint count is the C06 theorem (SPermute/SPoseidon are ordinary statements). *)
From Coq Require Import ZArith List Bool String Lia.
From PySnark Require Import Generated GeneratedPoseidon.
From PySnark.Model Require Import Hash.
From PySnark.Proofs Require Import PoseidonVectors.
Import ListNotations.
Open Scope Z_scope.

Theorem C20_vector_bn128 :
  permute_ref zkif_modulus poseidon_zkinterface [0; 1; 2; 3; 4] =
  [0x299c867db6c1fdd79dcefa40e4510b9837e60ebb1ce0663dbaa525df65250465; 0x1148aaef609aa338b27dafd89bb98862d8bb2b429aceac47d86206154ffe053d;
   0x24febb87fed7462e23f6665ff9a0111f4044c38ee1672c1ac6b0637d34f24907; 0x0eb08f6d809668a981c186beaf6110060707059576406b248e5d9cf6e78b3d3e;
   0x07748bc6877c9b82c8b98666ee9d0626ec7f5be4205f79ee8528ef1c4a376fc7].
Proof. exact vector_bn128. Qed.
Theorem C20_vector_bls12_381 :
  permute_ref bellman_modulus poseidon_zkifbellman [0; 1; 2; 3; 4] =
  [0x2a918b9c9f9bd7bb509331c81e297b5707f6fc7393dcee1b13901a0b22202e18; 0x65ebf8671739eeb11fb217f2d5c5bf4a0c3f210e3f3cd3b08b5db75675d797f7;
   0x2cc176fc26bc70737a696a9dfd1b636ce360ee76926d182390cdb7459cf585ce; 0x4dc4e29d283afd2a491fe6aef122b9a968e74eff05341f3cc23fda1781dcb566;
   0x03ff622da276830b9451b88b85e6184fd6ae15c8ab3ee25a5667be8592cce3b1].
Proof. exact vector_bls12_381. Qed.

(* padding *)
Lemma pad_length_pos r l : (0 < r)%nat -> exists k, pad r l = l ++ 1 :: repeat 0 k.
Proof. intros _. unfold pad. eexists. reflexivity. Qed.
Theorem C20_padding_injective : forall r l1 l2, pad r l1 = pad r l2 -> l1 = l2.
Proof.
  intros r l1 l2. unfold pad. set (k1 := (r - List.length l1 mod r - 1)%nat). set (k2 := (r - List.length l2 mod r - 1)%nat). clearbody k1 k2.
  revert l2. induction l1 as [|a l1 IH]; intros [|b l2] H; cbn in H.
  - reflexivity.
  - exfalso. inversion H as [[Hb Hr]]. destruct l2 as [|c l2]; cbn in Hr.
    + destruct k1; cbn in Hr; discriminate Hr.
    + assert (In 1 (repeat 0 k1)) by (rewrite Hr; right; apply in_or_app; right; left; reflexivity).
      apply repeat_spec in H0. discriminate H0.
  - exfalso. inversion H as [[Ha Hr]]. destruct l1 as [|c l1]; cbn in Hr.
    + destruct k2; cbn in Hr; discriminate Hr.
    + assert (In 1 (repeat 0 k2)) by (rewrite <- Hr; right; apply in_or_app; right; left; reflexivity).
      apply repeat_spec in H0. discriminate H0.
  - inversion H as [[Hab Hr]]. f_equal. apply IH. exact Hr.
Qed.
Theorem C20_padded_length_is_a_multiple_of_the_rate : forall r l, (0 < r)%nat -> (List.length (pad r l) mod r = 0)%nat.
Proof.
  intros r l Hr. unfold pad. rewrite !app_length, repeat_length. cbn [length].
  pose proof (Nat.mod_upper_bound (List.length l) r ltac:(lia)) as B.
  pose proof (Nat.div_mod (List.length l) r ltac:(lia)) as D.
  change (List.length [1]) with 1%nat.
  replace (List.length l + (1 + (r - List.length l mod r - 1)))%nat with ((List.length l / r + 1) * r)%nat by lia.
  apply Nat.mod_mul. lia.
Qed.

(* the parameter set used is the one registered under the selected backend's name *)
Open Scope string_scope.
Definition params_for (backend_name : string) : option poseidon_params :=
  match find (fun np => String.eqb backend_name (fst np)) poseidon_table with Some np => Some (snd np) | None => None end.
Theorem C20_parameters_by_selected_backend :
  params_for "zkinterface" = Some poseidon_zkinterface /\ params_for "zkifbellman" = Some poseidon_zkifbellman /\
  params_for "zkifbulletproofs" = Some poseidon_zkifbulletproofs /\ params_for "nobackend" = Some poseidon_nobackend /\
  params_for "snarkjs" = None /\ params_for "qaptools" = None /\ params_for "libsnark" = None.
Proof. repeat split; reflexivity. Qed.
(* the real parameter sets have the security-relevant shape (8 full, 60 partial rounds, width 5, x^5); the toy set does not *)
Theorem C20_real_parameter_shape :
  Forall (fun ps => R_F ps = 8 /\ R_P ps = 60 /\ pt ps = 5 /\ pa ps = 5 /\ List.length (round_constants ps) = 68%nat /\ List.length (matrix ps) = 5%nat)
         [poseidon_zkinterface; poseidon_zkifbellman; poseidon_zkifbulletproofs].
Proof. repeat constructor. Qed.

Print Assumptions C20_padding_injective.
