(* C01 — completeness: the recorded witness satisfies every emitted constraint.
   PROVED for the model, for every prime p, every configuration, every input vector and EVERY program that does not itself
   switch error checking off (no ignore_errors() statement), run with error checking on -- including programs whose run ends
   in an exception (the constraints emitted before it hold), guarded regions with false guards at any nesting depth, lazily
   evaluated branches and the block API (_if/_elif/_else, _while/_breakif, _range):
       C01_completeness.
   The proof is a weakest-precondition calculus over the generator monad (Proofs/Wp.v, sound for run + interp), one lemma
   per emitting gadget under the invariant "error suppression on => the guard evaluates to 0" (Proofs/GadgetsOK.v), closure
   under the operator dispatch and the statement layer (ApiOK.v, ProgOK.v), and the transfer from values at emission time to
   wires on the final witness (Meta.sat_final; well-scopedness of every command list is Frame.run_scoped).
   With error checking off (ignore_errors(True), used for key generation without valid inputs) the statement is false by
   design; C01_completeness_partial remains for such runs: it reduces the claim to a computable per-run check. *)
From Coq Require Import ZArith List Znumtheory Lia.
From PySnark.Base Require Import FieldZ.
From PySnark.Model Require Import Lc Sym Gadgets Api Prog.
From PySnark.Proofs Require Import Meta FieldOk Frame ProgFrame ProgOK Complete.
Import ListNotations.
Open Scope Z_scope.

Theorem C01_completeness : forall (p : Z) (c : cfg) (pr : list stmt) (ins : list Z),
  prime p -> forallb noign pr = true ->
  let t := model_run (p:=p) c pr ins false in
  Forall (holds (p:=p) (wval (st t))) (cons t).
Proof. intros p c pr ins Hp N. exact (program_complete (field_ok_prime p Hp) c pr ins N). Qed.

Theorem C01_completeness_partial : forall (p : Z) (c : cfg) (pr : list stmt) (ins : list Z) (ig : bool),
  prime p ->
  vjustb ins ig (gen_prog (p:=p) c pr) (Sym.init) = true ->
  let t := model_run (p:=p) c pr ins ig in
  Forall (holds (p:=p) (wval (st t))) (cons t).
Proof.
  intros p c pr ins ig Hp V t. apply (sat_final (field_ok_prime p Hp)); [exact (gen_prog_scoped c pr)|].
  apply vjustb_vjust; [pose proof (prime_ge_2 _ Hp); lia|exact V].
Qed.

(* non-vacuity: comparison, division, bitwise op, selection, a guarded region whose guard is false *)
Definition ex_prog : list stmt :=
  [SInput 0 IPriv 0; SInput 1 IPriv 1; SBin 2 OLt 0 1; SBin 3 OFloorDiv 1 0; SBin 4 OXor 0 1; SIte 5 2 3 4;
   SBin 6 OGt 0 1; SGuarded 6 [SBin 7 OTrueDiv 0 1; SMeth 8 MAssertZero 7 []]; SMeth 9 MVal 5 []].
Example C01_example :
  let c := {| bitlength := 4%nat; resolution := 0 |} in
  let t := model_run (p:=65537) c ex_prog [3; 7] false in
  raised t = None /\ length (cons t) = 44%nat /\
  scoped_cmds 0 0 (gen_prog (p:=65537) c ex_prog) = true /\ vjustb [3; 7] false (gen_prog (p:=65537) c ex_prog) (Sym.init) = true.
Proof. vm_compute. repeat split; reflexivity. Qed.

Example C01_example_noign : forallb noign ex_prog = true. Proof. reflexivity. Qed.

Print Assumptions C01_completeness.
Print Assumptions C01_completeness_partial.
