(* C01 — completeness: the recorded witness satisfies every emitted constraint.
   PARTIAL.  What is proved, for every prime p, every program, every input vector:
     if at the moment each constraint v * w = y is emitted the *values* of v, w, y satisfy it modulo p,
     then the FINAL recorded witness satisfies every emitted constraint as a constraint on the wires
     (well-scopedness of the command list, needed for that, is proved for all programs in Proofs/Frame.v).
   The hypothesis is computable ([vjustb]) and is evaluated in-kernel on every generated case by the
   harness; it is the integer-level identity that pysnark's add_constraint itself checks at run time when
   unguarded.  What is missing for the full statement: the hypothesis for ALL programs, i.e. one value-identity
   lemma per emitting gadget (mul, check_zero, assert_nonzero, and the callers of the guarded add_constraint)
   and an induction over the generator.  The direct oracle evaluates every recorded constraint of the real
   code on the recorded witness for every generated case. *)
From Coq Require Import ZArith List Znumtheory Lia.
From PySnark.Base Require Import FieldZ.
From PySnark.Model Require Import Lc Sym Gadgets Api Prog.
From PySnark.Proofs Require Import Meta FieldOk Frame ProgFrame.
Import ListNotations.
Open Scope Z_scope.

Theorem C01_completeness_partial : forall (p : Z) (c : cfg) (pr : list stmt) (ins : list Z) (ig : bool),
  prime p ->
  vjustb ins ig (gen_prog (p:=p) c pr) (Sym.init) = true ->
  let t := model_run (p:=p) c pr ins ig in
  Forall (holds (p:=p) (wval (st t))) (cons t).
Proof.
  intros p c pr ins ig Hp V t. apply (sat_final (field_ok_prime p Hp)); [exact (gen_prog_scoped c pr)|].
  apply vjustb_vjust; [pose proof (prime_ge_2 _ Hp); lia|exact V].
Qed.

(* non-vacuity: comparison, division, bitwise op, selection, a guarded region whose guard is false *)
Definition ex_prog : list stmt :=
  [SInput 0 IPriv 0; SInput 1 IPriv 1; SBin 2 OLt 0 1; SBin 3 OFloorDiv 1 0; SBin 4 OXor 0 1; SIte 5 2 3 4;
   SBin 6 OGt 0 1; SGuarded 6 [SBin 7 OTrueDiv 0 1; SMeth 8 MAssertZero 7 []]; SMeth 9 MVal 5 []].
Example C01_example :
  let c := {| bitlength := 4%nat; resolution := 0 |} in
  let t := model_run (p:=65537) c ex_prog [3; 7] false in
  raised t = None /\ length (cons t) = 44%nat /\
  scoped_cmds 0 0 (gen_prog (p:=65537) c ex_prog) = true /\ vjustb [3; 7] false (gen_prog (p:=65537) c ex_prog) (Sym.init) = true.
Proof. vm_compute. repeat split; reflexivity. Qed.

Print Assumptions C01_completeness_partial.
