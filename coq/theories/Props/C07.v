(* C07 — a false guard makes code inert; a true guard is transparent.
   Field-level core of the guard wrapper (runtime.add_constraint under a guard g: a fresh dummy d, constraints
   v * w = y + d and g * d = 0), for every prime p and arbitrary values:
     - transparent: whenever the guard is 1, any satisfying assignment satisfies the unguarded constraint v * w = y;
     - inert: whenever the guard is 0, the wrapped pair is satisfiable whatever v, w, y are (dummy := v*w - y),
       and the error-suppression flag of the region is on (so value checks do not raise) -- the model's region
       flag is [BOr ignore (cond = 0)] by definition of [new_guard];
   and, from Proofs/Frame.v, the region leaves no trace in the globals on either exit (C08).
   Inert at the level of the model's gadgets (Proofs/NoRaiseGuarded.v, the C07_no_error_under_a_false_guard_ theorems): inside a
   region with error suppression on, the multiplication, assert_zero, bit decomposition, non-negativity / sign test (so <, <=, >,
   >=), assert_positive, assert_lt/le/gt/ge, assert_eq gadgets do NOT raise, for ALL operand values, in or out of their domain
   (total-correctness calculus [nr]; C07_inert_meaning ties it to runs).
   PARTIAL: the same for the operators above the gadgets (dispatch) and that values/raises under a
   true guard coincide with the unguarded run is decided on the real code by the harness (false-guard runs on
   invalid operands; true-guard runs against the same program with the regions inlined), not by a theorem.
   Two genuine exceptions are known findings (zero divisor / non-boolean LinCombBool under a false guard). *)
From Coq Require Import ZArith List Znumtheory Lia.
From PySnark.Base Require Import FieldZ.
From PySnark.Model Require Import Lc Sym Gadgets Api Prog.
From PySnark.Proofs Require Import Sound Meta FieldOk ProgOK Complete Adv AdvGadgets NoRaise NoRaiseGadgets NoRaiseGuarded MergeValues IfRule.
Import ListNotations.
Open Scope Z_scope.

Section C07.
Variable p : Z.
Hypothesis Hp : prime p.
Notation "a == b" := (feq p a b) (at level 70).

Theorem C07_true_guard_transparent : forall g v w y d, g == 1 -> v * w == y + d -> g * d == 0 -> v * w == y.
Proof.
  intros g v w y d Hg H1 H2. rewrite Hg in H2. assert (Hd : d == 0) by (rewrite <- H2; apply eq_feq; ring).
  rewrite H1, Hd. apply eq_feq; ring.
Qed.
Theorem C07_false_guard_inert : forall g v w y, g == 0 -> exists d, v * w == y + d /\ g * d == 0.
Proof. intros g v w y Hg. exists (v * w - y). split; [apply eq_feq; ring|]. rewrite Hg. apply eq_feq; ring. Qed.
(* the selected value is still determined: with a boolean condition c, result = falsev + c * (truev - falsev) *)
Theorem C07_selection_determined : forall c t f m, c * (1 - c) == 0 -> c * (t - f) == m -> (c == 1 /\ f + m == t) \/ (c == 0 /\ f + m == f).
Proof. exact (select_sound p Hp). Qed.
End C07.

(* the error-suppression flag inside a region is on whenever its condition is 0 (by construction of the region) *)
Theorem C07_region_flag : forall (p : Z) (c : cfg) (cnd : slc p) s g i s' cs,
  guard s = None -> run (new_guard c cnd) s = (inl (g, i), s', cs) -> i = BOr (ignore s) (BEq (sval cnd) (VConst 0)).
Proof.
  intros p c cnd s g i s' cs Hg. unfold new_guard, get, raise_if. cbn [bind run]. rewrite Hg. cbn [ret bind run].
  destruct (bscopedb _ _ _); [|unfold model_err; intros H; discriminate H].
  destruct (oid cnd =? 0); cbn [fresh_oid ret bind run]; intros H; inversion H; reflexivity.
Qed.


(* inert, for whole programs: whatever the guards evaluate to (in particular false, at any nesting depth, with body operands
   that are invalid for the body), the constraint system stays satisfied by the recorded witness -- this is the completeness
   theorem of C01, which covers guarded regions, lazily evaluated branches and the block API *)
Theorem C07_guarded_code_keeps_the_system_satisfied : forall (p : Z) (c : cfg) (pr : list stmt) (ins : list Z),
  prime p -> forallb noign pr = true ->
  let t := model_run (p:=p) c pr ins false in Forall (holds (p:=p) (wval (st t))) (cons t).
Proof. intros p c pr ins Hp N. exact (program_complete (field_ok_prime p Hp) c pr ins N). Qed.
Example C07_example :
  let pr := [SInput 0 IPriv 0; SInput 1 IPriv 1; SInput 2 IPriv 2;
             SGuarded 0 [SBin 3 OTrueDiv 1 2; SMeth 4 MAssertZero 1 []; SBin 5 OLt 1 2; SGuarded 5 [SMeth 6 (MAssertPositive None) 3 []]]] in
  forallb noign pr = true /\ raised (model_run (p:=65537) {| bitlength := 3%nat; resolution := 0 |} pr [0; 100; 7] false) = None.
Proof. vm_compute. split; reflexivity. Qed.

(* transparent, at the level of the emitted constraints: inside a region whose guard wire evaluates to 1, the constraints a
   gadget emits (v*w = y+d, g*d = 0 for a fresh dummy d) force exactly what the unguarded constraints force -- e.g. the sign
   test behind <, <=, >, >=, abs; the same holds for every C02_model_* / C03_model_* / C16 theorem, whose hypothesis [Gok]
   covers both cases *)
Theorem C07_true_guard_transparent_for_gadgets : forall (p : Z), prime p -> forall (w : var -> Z), w 0 = 1 ->
  forall (s : @Gadgets.gst p) g x k r s' cs, guard s = Some g -> feq p (AdvGadgets.ew w g) 1 ->
  run (check_positive x k) s = (inl r, s', cs) -> Forall (holds (p:=p) w) (cons_of cs) ->
  (feq p (AdvGadgets.ew w r) 1 /\ exists v, 0 <= v < 2 ^ Z.of_nat k /\ feq p (AdvGadgets.ew w x) v) \/
  (feq p (AdvGadgets.ew w r) 0 /\ exists v, - 2 ^ Z.of_nat k <= v < 0 /\ feq p (AdvGadgets.ew w x) v).
Proof.
  intros p Hp w W0 s g x k r s' cs Hg Eg R H. apply (check_positive_forced Hp w W0 s) with (s' := s') (cs := cs); auto.
  unfold AdvGadgets.Gok. rewrite Hg. exact Eg.
Qed.

(* ---- inert: under a false guard (error suppression on) the gadgets do not raise, whatever the operand values ---- *)
Section C07_inert.
Variable p : Z.
Variables (ins : list Z) (ig : bool) (c : cfg) (s : @Gadgets.gst p) (sg : store).
Hypothesis Hv : NoRaiseGuarded.V ins ig s sg.   (* invariant + inside a guarded region + error suppression on (guard value 0) *)
Local Notation total := (NoRaise.nr ins ig).
Local Notation sc := (NoRaiseGadgets.sc s).
Theorem C07_inert_meaning : forall A (m : Gadgets.G A) Q, total m s sg Q ->
  forall t, st t = sg -> raised t = None -> forall r s' cs, run m s = (r, s', cs) ->
  raised (fold_left (Sym.step p ins ig) cs t) = None /\ exists a, r = inl a /\ Q a s' (st (fold_left (Sym.step p ins ig) cs t)).
Proof. intros A m Q. exact (nr_sound ins ig false A m s sg Q). Qed.
Theorem C07_no_error_under_a_false_guard_mul : forall x y, sc x -> sc y -> total (mul x y) s sg (fun _ _ _ => True).
Proof. intros x y Hx Hy. apply (mul_g ins ig x y s sg _ Hv Hx Hy). intros; exact I. Qed.
Theorem C07_no_error_under_a_false_guard_assert_zero : forall x, sc x -> total (assert_zero x) s sg (fun _ _ _ => True).
Proof. intros x Hx. apply (assert_zero_g ins ig x s sg _ Hv Hx). intros; exact I. Qed.
Theorem C07_no_error_under_a_false_guard_to_bits : forall x k, sc x -> total (to_bits x k) s sg (fun _ _ _ => True).
Proof. intros x k Hx. apply (to_bits_g ins ig x k s sg _ Hv Hx). intros; exact I. Qed.
Theorem C07_no_error_under_a_false_guard_assert_positive : forall x k, sc x -> total (assert_positive x k) s sg (fun _ _ _ => True).
Proof. intros x k Hx. apply (assert_positive_g ins ig x k s sg _ Hv Hx). intros; exact I. Qed.
Theorem C07_no_error_under_a_false_guard_sign_test : forall x k, sc x -> total (check_positive x k) s sg (fun _ _ _ => True).
Proof. intros x k Hx. apply (check_positive_g ins ig x k s sg _ Hv Hx). intros; exact I. Qed.
Theorem C07_no_error_under_a_false_guard_lt : forall x y, sc x -> sc y -> total (lt c x y) s sg (fun _ _ _ => True).
Proof. intros x y Hx Hy. unfold lt. apply (check_positive_g ins ig _ _ s sg _ Hv); [apply sc_subc; apply sc_sub; assumption|]. intros; exact I. Qed.
Theorem C07_no_error_under_a_false_guard_le : forall x y, sc x -> sc y -> total (le c x y) s sg (fun _ _ _ => True).
Proof. intros x y Hx Hy. unfold le. apply (check_positive_g ins ig _ _ s sg _ Hv); [apply sc_sub; assumption|]. intros; exact I. Qed.
Theorem C07_no_error_under_a_false_guard_assert_lt : forall x y, sc x -> sc y -> total (assert_lt c x y) s sg (fun _ _ _ => True).
Proof.
  intros x y Hx Hy. unfold assert_lt. apply (assert_rel_g ins ig c _ _ x y s sg _ Hv Hx Hy); [apply sc_subc; apply sc_sub; assumption| |intros; exact I].
  cbn [bscopedb]. rewrite (proj1 (proj1 (sc_parts _ _) Hx)), (proj1 (proj1 (sc_parts _ _) Hy)). reflexivity.
Qed.
Theorem C07_no_error_under_a_false_guard_assert_le : forall x y, sc x -> sc y -> total (assert_le c x y) s sg (fun _ _ _ => True).
Proof.
  intros x y Hx Hy. unfold assert_le. apply (assert_rel_g ins ig c _ _ x y s sg _ Hv Hx Hy); [apply sc_sub; assumption| |intros; exact I].
  cbn [bscopedb]. rewrite (proj1 (proj1 (sc_parts _ _) Hx)), (proj1 (proj1 (sc_parts _ _) Hy)). reflexivity.
Qed.
Theorem C07_no_error_under_a_false_guard_assert_eq : forall x y, sc x -> sc y -> total (assert_eq x y) s sg (fun _ _ _ => True).
Proof. intros x y Hx Hy. apply (assert_eq_g ins ig x y s sg _ Hv Hx Hy). intros; exact I. Qed.
End C07_inert.

(* non-vacuity of the hypothesis V: the state inside guarded(PrivVal(0)) -- one witness with value 0, which is the guard and
   LinComb.ONE, error suppression on *)
Example C07_inert_example :
  let g := var_slc (p:=65537) (-1) in
  let s : @Gadgets.gst 65537 := upd_globals (upd_counters (init_gst (p:=65537)) 0 1 10) (Some g) BTrue g None in
  NoRaiseGuarded.V [0] false s {| pubs := []; privs := [0] |} /\ NoRaiseGadgets.sc s g.
Proof.
  cbv zeta. split; [|reflexivity]. split; [|split; [reflexivity|eexists; split; reflexivity]].
  split; [split; reflexivity|]. split; [reflexivity|]. split; [intros _; reflexivity|reflexivity].
Qed.

Print Assumptions C07_true_guard_transparent.
Print Assumptions C07_no_error_under_a_false_guard_mul.
Print Assumptions C07_no_error_under_a_false_guard_assert_zero.
Print Assumptions C07_no_error_under_a_false_guard_to_bits.
Print Assumptions C07_no_error_under_a_false_guard_assert_positive.
Print Assumptions C07_no_error_under_a_false_guard_sign_test.
Print Assumptions C07_no_error_under_a_false_guard_lt.
Print Assumptions C07_no_error_under_a_false_guard_le.
Print Assumptions C07_no_error_under_a_false_guard_assert_lt.
Print Assumptions C07_no_error_under_a_false_guard_assert_le.
Print Assumptions C07_no_error_under_a_false_guard_assert_eq.

Print Assumptions C07_guarded_code_keeps_the_system_satisfied.
Print Assumptions C07_true_guard_transparent_for_gadgets.
Print Assumptions C07_false_guard_inert.
Print Assumptions C07_region_flag.

(* A whole block that is not taken is inert for the program's variables: for ANY body (any statements, any nesting) that completes,
   if _if(c): body ; _endif()  with c = 0 leaves every variable with the value it had before the block; with c = 1 it leaves the values
   the body computed (instance of the Hoare rule IfRule.oif_rule, see C09_if_block_rule). *)
Theorem C07_block_not_taken_keeps_every_variable : forall (p : Z), prime p -> forall ins ig (c : cfg) (cn : nat) (thenb : list stmt) (b : @Prog.bst p) o cb (olds : list (nat * Sym.slc p)) s sg
    (R : list (nat * Sym.slc p) -> Sym.store -> Prop) (Q : @Prog.bst p -> @Gadgets.gst p -> Sym.store -> Prop),
  WpBase.Inv ins ig s sg -> rget (bregs b) cn = PBool o cb -> MergeValues.sc s cb -> bvals b = IfRule.lcs olds ->
  Sym.veval p ins ig sg (sval cb) = 0 ->
  (forall orig ic s1 sg1, WpBase.Inv ins ig s1 sg1 -> Meta.ext sg sg1 -> tvalid ins ig orig s1 sg1 ->
     let cx := {| bk := KIf; bcond := PBool o cb; bbak := IfRule.lcs olds; borig := orig; bnodef := None; bicond := Some ic |} in
     Wp.wp ins ig (gen_stmts c thenb (with_stack b (cx :: bstack b))) s1 sg1
        (fun b2 s2 sg2 => WpBase.Inv ins ig s2 sg2 /\ Meta.ext sg1 sg2 /\ bstack b2 = cx :: bstack b /\
           exists news, bvals b2 = IfRule.lcs news /\ NoDup (map fst news) /\ Forall (MergeValues.pre ins ig (IfRule.lcs olds) s2 sg2) news /\ R news sg2)) ->
  (forall b3 s3 sg3 news sgb, WpBase.Inv ins ig s3 sg3 -> Meta.ext sg sgb -> Meta.ext sgb sg3 -> R news sgb -> bstack b3 = bstack b ->
     (forall nm t, In (nm, t) news -> exists x f, dget (bvals b3) nm = Some (PLC x) /\ dget (IfRule.lcs olds) nm = Some (PLC f) /\
        Sym.veval p ins ig sg3 (sval x) = Sym.veval p ins ig sgb (sval f)) ->
     Q b3 s3 sg3) ->
  Wp.wp ins ig (gen_top c (SOIf cn thenb [] None) b) s sg Q.
Proof.
  intros p Hp ins ig c cn thenb b o cb olds s sg R Q I Hc Scb Hv Hz HB HQ.
  apply (IfRule.oif_rule ins ig (field_ok_prime p Hp) c cn thenb b o cb olds s sg R); try assumption.
  intros b3 s3 sg3 news sgb I3 E1 E2 HR Hs Hl. apply (HQ b3 s3 sg3 news sgb); try assumption.
  intros nm t Hin. destruct (Hl nm t Hin) as (x & f & A & B & _ & V). exists x, f. split; [exact A|]. split; [exact B|].
  rewrite V, Hz. unfold MergeValues.sel. ring.
Qed.
Print Assumptions C07_block_not_taken_keeps_every_variable.
