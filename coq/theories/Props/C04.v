(* C04 — every reported value equals its wire expression on the recorded witness.
   Every symbolic LinComb the generator can build carries a proof that its Python-visible value and its
   wire are congruent on every witness (Model/Good.v: the smart constructors are the only way to build one),
   so coherence of *every* intermediate and final LinComb / LinCombBool / LinCombFxp result, under any
   nesting of guards and with error checking on or off, is a consequence of typing plus Proofs/Meta.v. *)
From Coq Require Import ZArith List Znumtheory.
From PySnark.Base Require Import FieldZ.
From PySnark.Model Require Import Lc Sym Gadgets Api Prog.
From PySnark.Proofs Require Import Meta FieldOk Frame ProgFrame.
Import ListNotations.
Open Scope Z_scope.

(* for every prime modulus, program, input vector and error-checking mode: each secret-typed result
   (tag 1 LinComb, 2 LinCombBool, 3 LinCombFxp) was, when it was observed, congruent to its wire evaluated
   on the witness recorded up to then (a prefix of the final witness) *)
Theorem C04_coherent_when_observed : forall (p : Z) (c : cfg) (pr : list stmt) (ins : list Z) (ig : bool),
  prime p ->
  let t := model_run (p:=p) c pr ins ig in
  Forall (fun o : Z * Z * lc => is_lc_tag (fst (fst o)) = true ->
            exists s, ext s (st t) /\ feq p (snd (fst o)) (eval (wval s) (snd o))) (outs t).
Proof. intros p c pr ins ig Hp. exact (outs_coherent (field_ok_prime p Hp) (gen_prog c pr) ins ig). Qed.

(* ... and on the FINAL recorded witness: every generated command list is well-scoped (Proofs/Frame.v: one induction
   over the free generator monad), so what was observed stays true of the complete witness *)
Theorem C04_coherent_on_final_witness : forall (p : Z) (c : cfg) (pr : list stmt) (ins : list Z) (ig : bool),
  prime p ->
  let t := model_run (p:=p) c pr ins ig in
  Forall (fun o : Z * Z * lc => is_lc_tag (fst (fst o)) = true ->
            feq p (snd (fst o)) (eval (wval (st t)) (snd o))) (outs t).
Proof.
  intros p c pr ins ig Hp t.
  pose proof (outs_coherent_final (field_ok_prime p Hp) (gen_prog c pr) ins ig (gen_prog_scoped c pr)) as H.
  eapply Forall_impl; [|exact H]. intros o Ho T. exact (proj2 (Ho T)).
Qed.

(* non-vacuity: results inside a region whose guard is false, with error checking off, incl. x / int on its error path *)
Definition ex_prog : list stmt :=
  [SInput 0 IPriv 0; SInput 1 IPriv 1; SBin 2 OLt 0 1; SConst 5 (LInt 3);
   SGuarded 2 [SBin 3 OTrueDiv 0 5; SBin 4 OMul 3 1; SUn 6 UAbs 4]].
Example C04_example :
  let t := model_run (p:=65537) {| bitlength := 4%nat; resolution := 2 |} ex_prog [7; 2] false in
  raised t = None /\ scoped_cmds 0 0 (gen_prog (p:=65537) {| bitlength := 4%nat; resolution := 2 |} ex_prog) = true
  /\ length (filter (fun o : Z * Z * lc => is_lc_tag (fst (fst o))) (outs t)) = 6%nat.
Proof. vm_compute. repeat split; reflexivity. Qed.

Print Assumptions C04_coherent_when_observed.
Print Assumptions C04_coherent_on_final_witness.
