(* Primality of the field moduli *as translated from the source on this run*.
   Certificates (Certs.v) are untrusted input; the verified checker decides. *)
From Coq Require Import ZArith List Znumtheory.
From PySnark Require Import Generated.
From PySnark.Base Require Import Pratt Certs.
Import ListNotations.
Open Scope Z_scope.

Ltac prove_prime cert :=
  let H := fresh in
  assert (H : Forall prime (map (fun e : entry => fst (fst e)) cert))
    by (apply (check_all_sound cert [2]); [constructor; [exact prime_2|constructor] | vm_compute; reflexivity]);
  rewrite Forall_forall in H; apply H; vm_compute; tauto.

Theorem bn128_prime : prime p_bn128.
Proof. prove_prime cert_bn128. Qed.
Theorem bls12_381_prime : prime p_bls12_381.
Proof. prove_prime cert_bls12_381. Qed.
Theorem curve25519_prime : prime p_curve25519.
Proof. prove_prime cert_curve25519. Qed.

(* the constants the source declares are those primes *)
Theorem snarkjsp_prime : prime snarkjsp.
Proof. change snarkjsp with p_bn128. exact bn128_prime. Qed.
Theorem zkif_modulus_prime : prime zkif_modulus.
Proof. change zkif_modulus with p_bn128. exact bn128_prime. Qed.
Theorem vc_p_prime : prime vc_p.
Proof. change vc_p with p_bn128. exact bn128_prime. Qed.
Theorem bellman_modulus_prime : prime bellman_modulus.
Proof. change bellman_modulus with p_bls12_381. exact bls12_381_prime. Qed.
Theorem bulletproofs_modulus_prime : prime bulletproofs_modulus.
Proof. change bulletproofs_modulus with p_curve25519. exact curve25519_prime. Qed.
