From Coq Require Import ZArith List Bool Lia.
Import ListNotations.
Open Scope Z_scope.

(* Python: (v & (1 << i)) >> i *)
Definition pybit (v : Z) (i : nat) : Z := Z.shiftr (Z.land v (Z.shiftl 1 (Z.of_nat i))) (Z.of_nat i).

Lemma pybit_testbit v i : pybit v i = Z.b2z (Z.testbit v (Z.of_nat i)).
Proof.
  unfold pybit. apply Z.bits_inj'. intros j Hj.
  rewrite Z.shiftr_spec by lia. rewrite Z.land_spec.
  rewrite Z.shiftl_1_l. rewrite Z.pow2_bits_eqb by lia.
  destruct (Z.testbit v (Z.of_nat i)) eqn:E; simpl.
  - destruct (Z.eq_dec j 0) as [->|Hn].
    + simpl. rewrite E. rewrite Z.eqb_refl. reflexivity.
    + replace (Z.testbit 1 j) with false.
      2:{ symmetry. replace 1 with (2^0) by reflexivity. rewrite Z.pow2_bits_eqb by lia. lia. }
      replace (Z.of_nat i =? j + Z.of_nat i) with false by lia. apply andb_false_r.
  - rewrite Z.testbit_0_l.
    destruct (Z.eq_dec j 0) as [->|Hn]; [simpl; rewrite E; reflexivity|].
    replace (Z.of_nat i =? j + Z.of_nat i) with false by lia. apply andb_false_r.
Qed.

Lemma pybit_01 v i : pybit v i = 0 \/ pybit v i = 1.
Proof. rewrite pybit_testbit. destruct (Z.testbit _ _); auto. Qed.

Fixpoint recompose (v : Z) (k : nat) : Z :=
  match k with O => 0 | S k' => recompose v k' + pybit v k' * 2 ^ Z.of_nat k' end.

Lemma recompose_mod v k : recompose v k = v mod 2 ^ Z.of_nat k.
Proof.
  induction k as [|k IH].
  - simpl. now rewrite Z.mod_1_r.
  - cbn [recompose]. rewrite IH. rewrite Nat2Z.inj_succ, Z.pow_succ_r by lia.
    rewrite (Z.mul_comm 2). rewrite Z.rem_mul_r by lia.
    f_equal. rewrite Z.mul_comm. f_equal.
    rewrite pybit_testbit. rewrite Z.testbit_odd, Z.shiftr_div_pow2 by lia.
    rewrite Zmod_odd. destruct (Z.odd _); reflexivity.
Qed.

Theorem recompose_exact v k : 0 <= v < 2 ^ Z.of_nat k -> recompose v k = v.
Proof. intros H. rewrite recompose_mod. apply Z.mod_small; lia. Qed.

(* python bit_length *)
Definition bit_length (v : Z) : Z := if v =? 0 then 0 else Z.log2 (Z.abs v) + 1.
Lemma bit_length_range v k : 0 <= v -> 0 <= k -> (bit_length v <= k <-> v < 2 ^ k).
Proof.
  intros Hv Hk. unfold bit_length. destruct (Z.eqb_spec v 0) as [->|Hn].
  - split; intros; [apply Z.pow_pos_nonneg; lia | lia].
  - rewrite Z.abs_eq by lia. split; intro H.
    + apply Z.log2_lt_pow2; lia.
    + apply Z.log2_lt_pow2 in H; lia.
Qed.
