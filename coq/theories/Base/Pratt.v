From Coq Require Import ZArith Lia Znumtheory Zpow_facts List Bool.
From mathcomp Require Import all_ssreflect all_fingroup all_algebra all_solvable.
From mathcomp.zify Require Import zify.
Set Warnings "-all".
From PySnark.Base Require Import Fermat Lucas.
Delimit Scope Z_scope with Z.
Import ListNotations.

(* reverse bridge: mathcomp prime -> Znumtheory.prime *)
Lemma natprime_Zprime (p : Z) : (1 < p)%Z -> prime (Z.to_nat p) -> Znumtheory.prime p.
Proof.
  move=> H1 pp. apply prime_alt. split=> // n Hn [k Hk].
  have D : (Z.to_nat n %| Z.to_nat p)%N.
  { apply/dvdnP. exists (Z.to_nat k). have: (0 <= k)%Z by nia. move=> k0.
    apply Nat2Z.inj. rewrite Nat2Z.inj_mul !Z2Nat.id; lia. }
  have /primeP [_ /(_ _ D)] := pp. move/orP => [/eqP E|/eqP E]; lia.
Qed.

Lemma divn_Z (a n : nat) : (0 < n)%N -> Z.of_nat (a %/ n) = Z.div (Z.of_nat a) (Z.of_nat n).
Proof.
  move=> Hn. have E := divn_eq a n. have L := ltn_pmod a Hn.
  move: E L. set q := (a %/ n)%N. set r := (a %% n)%N. move=> E L.
  apply (Z.div_unique_pos _ _ _ (Z.of_nat r)); first by lia.
  rewrite {1}E. lia.
Qed.

Open Scope Z_scope.
Definition fprod (fs : list (Z * Z)) : Z := fold_right (fun qe acc => fst qe ^ snd qe * acc) 1 fs.

Lemma prime_in_factors q fs :
  Znumtheory.prime q -> Forall (fun qe => Znumtheory.prime (fst qe) /\ 0 < snd qe) fs ->
  (q | fprod fs) -> In q (map fst fs).
Proof.
  move=> pq. elim: fs => [|[q1 e1] fs IH] /= Hf D.
  - exfalso. have := prime_ge_2 _ pq. have := Z.divide_1_r_nonneg q. move=> H G. have: q = 1 by apply H; [lia|exact D]. lia.
  - inversion Hf as [|? ? [p1 He] Hfs]; subst. simpl in *.
    case: (prime_mult _ pq _ _ D) => D'.
    + left. symmetry. apply (prime_power_prime q q1 e1); auto; lia.
    + right. exact: IH.
Qed.

Theorem lucas_Z p a fs :
  1 < p ->
  Forall (fun qe => Znumtheory.prime (fst qe) /\ 0 < snd qe) fs ->
  fprod fs = p - 1 ->
  Zpow_mod a (p - 1) p = 1 ->
  Forall (fun qe => Zpow_mod a ((p - 1) / fst qe) p <> 1) fs ->
  Znumtheory.prime p.
Proof.
  move=> H1 Hf Hprod Hone Hne.
  apply natprime_Zprime => //.
  set n := Z.to_nat p. set a' := Z.to_nat (a mod p).
  have Hr : 0 <= a mod p < p by apply Z.mod_pos_bound; lia.
  have n0 : (0 < n)%N by rewrite /n; lia.
  have n1 : (1 < n)%N by rewrite /n; lia.
  have npred : Z.of_nat n.-1 = p - 1 by rewrite /n; lia.
  have powE k : 0 <= k -> Z.of_nat ((a' ^ Z.to_nat k) %% n) = Zpow_mod a k p.
  { move=> k0. rewrite modn_Z // expn_Z /a' /n !Z2Nat.id; try lia.
    rewrite Zpow_mod_correct; last lia. by rewrite -Zpower_mod; last lia. }
  apply (@lucas n a') => //.
  - apply Nat2Z.inj. have -> : n.-1 = Z.to_nat (p - 1) by lia.
    rewrite powE; last lia. rewrite Hone modn_Z // /n Z2Nat.id; last lia.
    rewrite Z.mod_small; lia.
  - move=> q pq qd. apply/eqP => E.
    have q0 : (0 < q)%N by apply prime_gt0.
    have pqz : Znumtheory.prime (Z.of_nat q).
    { apply natprime_Zprime; last by rewrite Nat2Z.id. have := prime_gt1 pq. lia. }
    have dz : (Z.of_nat q | fprod fs).
    { rewrite Hprod -npred. move/dvdnP: qd => [k ->]. exists (Z.of_nat k). lia. }
    have Hin := prime_in_factors _ _ pqz Hf dz.
    move: Hin => /in_map_iff [[q' e'] [/= Eq Hin]]. subst q'.
    have := proj1 (Forall_forall _ _) Hne _ Hin. simpl. apply.
    have dE : (p - 1) / Z.of_nat q = Z.of_nat (n.-1 %/ q) by rewrite divn_Z // npred.
    rewrite dE -[Z.of_nat (n.-1 %/ q)]Z2Nat.id; last lia.
    rewrite -powE; last lia. rewrite !Nat2Z.id E modn_Z // /n Z2Nat.id; last lia.
    rewrite Z.mod_small; lia.
Qed.

(* ---------- certificate checker ---------- *)
Definition entry := (Z * Z * list (Z * Z))%type.
Definition check_entry (known : list Z) (en : entry) : bool :=
  let '(p, a, fs) := en in
  (1 <? p) && forallb (fun qe => existsb (Z.eqb (fst qe)) known && (0 <? snd qe)) fs
  && (fprod fs =? p - 1) && (Zpow_mod a (p - 1) p =? 1)
  && forallb (fun qe => negb (Zpow_mod a ((p - 1) / fst qe) p =? 1)) fs.
Fixpoint check_all (known : list Z) (es : list entry) : bool :=
  match es with
  | [] => true
  | e :: es' => check_entry known e && check_all (fst (fst e) :: known) es'
  end.

Lemma check_entry_sound known en :
  Forall Znumtheory.prime known -> check_entry known en = true -> Znumtheory.prime (fst (fst en)).
Proof.
  case: en => [[p a] fs] Hk /=.
  move/andP => [/andP [/andP [/andP [H1 Hf] Hp] Ho] Hn].
  apply (lucas_Z p a fs).
  - lia.
  - apply Forall_forall => qe Hin. move/forallb_forall: Hf => /(_ _ Hin) /andP [/existsb_exists [q [Hq /Z.eqb_eq E]] He].
    split; last lia. rewrite E. exact: (proj1 (Forall_forall _ _) Hk _ Hq).
  - lia.
  - lia.
  - apply Forall_forall => qe Hin. move/forallb_forall: Hn => /(_ _ Hin). lia.
Qed.

Theorem check_all_sound es : forall known,
  Forall Znumtheory.prime known -> check_all known es = true ->
  Forall Znumtheory.prime (map (fun e : entry => fst (fst e)) es).
Proof.
  elim: es => [|e es IH] known Hk //= /andP [He Hr].
  have pe := check_entry_sound _ _ Hk He.
  constructor => //. apply: (IH (fst (fst e) :: known)) => //. by constructor.
Qed.
