From Coq Require Import ZArith List Bool Lia Znumtheory Setoid Morphisms.
Import ListNotations.
Open Scope Z_scope.

Section F.
Variable p : Z.
Hypothesis Hp : prime p.
Definition feq (a b : Z) := (p | a - b).
Notation "a == b" := (feq a b) (at level 70).
Lemma p_pos : 0 < p. Proof. generalize (prime_ge_2 _ Hp). lia. Qed.

Global Instance feq_equiv : Equivalence feq.
Proof. split.
 - intros a. exists 0. ring.
 - intros a b [k H]. exists (-k). lia.
 - intros a b c [k H] [l G]. exists (k + l). lia.
Qed.
Global Instance feq_add : Proper (feq ==> feq ==> feq) Z.add.
Proof. intros a b [k H] c d [l G]. exists (k+l). lia. Qed.
Global Instance feq_sub : Proper (feq ==> feq ==> feq) Z.sub.
Proof. intros a b [k H] c d [l G]. exists (k-l). lia. Qed.
Global Instance feq_opp : Proper (feq ==> feq) Z.opp.
Proof. intros a b [k H]. exists (-k). lia. Qed.
Global Instance feq_mul : Proper (feq ==> feq ==> feq) Z.mul.
Proof. intros a b [k H] c d [l G]. exists (k*c + b*l).
  replace (a*c - b*d) with ((a-b)*c + b*(c-d)) by ring. rewrite H, G. ring. Qed.
Lemma eq_feq a b : a = b -> a == b. Proof. intros ->. reflexivity. Qed.
Lemma feq_small_false t : 0 < t < p -> ~ (t == 0).
Proof. intros H E. unfold feq in E. rewrite Z.sub_0_r in E. apply Z.divide_pos_le in E; lia. Qed.
Lemma feq_small_eq a b : 0 <= a < p -> 0 <= b < p -> a == b -> a = b.
Proof. intros Ha Hb E. destruct (Z.lt_trichotomy a b) as [L|[L|L]]; [|exact L|].
  - exfalso. apply (feq_small_false (b - a)); [lia|]. rewrite E. apply eq_feq; ring.
  - exfalso. apply (feq_small_false (a - b)); [lia|]. rewrite E. apply eq_feq; ring.
Qed.

Lemma feq_integral a b : a * b == 0 -> a == 0 \/ b == 0.
Proof. unfold feq. rewrite !Z.sub_0_r. apply prime_mult, Hp. Qed.

Lemma bit_cases b : b * (1 - b) == 0 -> b == 0 \/ b == 1.
Proof. intros H. apply feq_integral in H. destruct H as [H|H]; [left; exact H|right].
  transitivity (b + (1 - b)); [|apply eq_feq; ring]. rewrite H. apply eq_feq; ring. Qed.

(* ---- zero test (Pinocchio trick): constraints  x*m = 1 - r,  x*r = 0 ---- *)
Theorem check_zero_sound x m r :
  x * m == 1 - r -> x * r == 0 -> (x == 0 -> r == 1) /\ (~ x == 0 -> r == 0).
Proof.
  intros C1 C2. split.
  - intros Hx. rewrite Hx in C1.
    transitivity (1 - (1 - r)); [apply eq_feq; ring|]. rewrite <- C1. apply eq_feq; ring.
  - intros Hx. apply feq_integral in C2. tauto.
Qed.

(* ---- binary decomposition: bits boolean, x = sum b_i 2^i, 2^k <= p ---- *)
Fixpoint wsum (bs : list Z) (i : Z) : Z :=
  match bs with [] => 0 | b :: bs' => b * 2 ^ i + wsum bs' (i + 1) end.

Lemma wsum_factor bs i : 0 <= i -> Forall (fun b => b = 0 \/ b = 1) bs ->
  exists q, wsum bs i = 2 ^ i * q /\ 0 <= q < 2 ^ Z.of_nat (length bs).
Proof.
  revert i. induction bs as [|b bs IH]; intros i Hi Hb.
  - exists 0. simpl. split; [ring|lia].
  - inversion Hb as [|? ? Hb0 Hbs]; subst. cbn [wsum].
    destruct (IH (i+1) ltac:(lia) Hbs) as [q [Hq Hr]]. rewrite Hq.
    exists (b + 2 * q). split.
    + rewrite Z.pow_add_r by lia. change (2^1) with 2. ring.
    + simpl length. rewrite Nat2Z.inj_succ, Z.pow_succ_r by lia. set (t := 2 ^ Z.of_nat (length bs)) in *; clearbody t. destruct Hb0; subst b; lia.
Qed.

Lemma wsum_bound bs : Forall (fun b => b = 0 \/ b = 1) bs ->
  0 <= wsum bs 0 < 2 ^ Z.of_nat (length bs).
Proof. intros Hb. destruct (wsum_factor bs 0 ltac:(lia) Hb) as [q [Hq Hr]]. rewrite Hq, Z.pow_0_r. lia. Qed.

(* two boolean vectors with congruent weighted sums are equal, when 2^k <= p *)
Lemma wsum_inj bs cs i : 0 <= i -> length bs = length cs ->
  Forall (fun b => b = 0 \/ b = 1) bs -> Forall (fun b => b = 0 \/ b = 1) cs ->
  wsum bs i = wsum cs i -> bs = cs.
Proof.
  revert cs i. induction bs as [|b bs IH]; intros [|c cs] i Hi Hl Hb Hc E; try discriminate; [reflexivity|].
  inversion Hb as [|? ? Hb0 Hbs]; inversion Hc as [|? ? Hc0 Hcs]; subst.
  cbn [wsum] in E.
  assert (Hw: forall l j, 0 <= j -> exists q, wsum l (j+1) = 2 ^ (j+1) * q).
  { clear. induction l as [|x l IHl]; intros j Hj; [exists 0; simpl; ring|].
    cbn [wsum]. destruct (IHl (j+1) ltac:(lia)) as [q Hq]. rewrite Hq.
    exists (x + 2 * q). replace (j+1+1) with (Z.succ (j+1)) by lia. rewrite Z.pow_succ_r by lia. ring. }
  destruct (Hw bs i Hi) as [q1 H1], (Hw cs i Hi) as [q2 H2].
  rewrite H1, H2 in E. rewrite Z.pow_add_r in E by lia. change (2^1) with 2 in E.
  assert (P: 0 < 2 ^ i) by (apply Z.pow_pos_nonneg; lia).
  assert (E2: b + 2 * q1 = c + 2 * q2).
  { apply (Z.mul_reg_l _ _ (2 ^ i)); [lia|].
    transitivity (b * 2 ^ i + 2 ^ i * 2 * q1); [ring|]. rewrite E. ring. }
  assert (b = c) by (destruct Hb0, Hc0; subst; lia).
  subst c. f_equal. simpl in Hl. apply (IH cs (i+1)); try lia; auto.
Qed.

Lemma wsum_proper bs cs i : Forall2 feq bs cs -> wsum bs i == wsum cs i.
Proof. intros H. revert i. induction H as [|b c bs cs Hbc _ IH]; intros i; cbn [wsum]; [reflexivity|].
  rewrite Hbc, (IH (i+1)). reflexivity. Qed.

Lemma feq_mod a : a == a mod p.
Proof. unfold feq. exists (a / p). generalize (Z.div_mod a p) p_pos. lia. Qed.

Lemma bit_canon b : b * (1 - b) == 0 -> b mod p = 0 \/ b mod p = 1.
Proof.
  intros H. generalize p_pos (prime_ge_2 _ Hp) (Z.mod_pos_bound b p); intros P0 P2 Hr.
  destruct (bit_cases b H) as [E|E]; [left|right];
  apply feq_small_eq; try lia; rewrite <- feq_mod; exact E.
Qed.

Theorem to_bits_sound k (bs cs : list Z) x :
  2 ^ Z.of_nat k <= p -> length bs = k -> length cs = k ->
  Forall (fun b => b * (1 - b) == 0) bs -> Forall (fun b => b * (1 - b) == 0) cs ->
  x == wsum bs 0 -> x == wsum cs 0 ->
  Forall2 feq bs cs.
Proof.
  intros Hk Lb Lc Bb Bc Xb Xc.
  set (nb := map (fun b => b mod p) bs). set (nc := map (fun b => b mod p) cs).
  assert (Fb: Forall2 feq bs nb).
  { unfold nb. clear - Hp. induction bs; simpl; constructor; auto using feq_mod. }
  assert (Fc: Forall2 feq cs nc).
  { unfold nc. clear - Hp. induction cs; simpl; constructor; auto using feq_mod. }
  assert (Cb: Forall (fun b => b = 0 \/ b = 1) nb).
  { unfold nb. clear - Bb Hp. induction Bb; simpl; constructor; auto using bit_canon. }
  assert (Cc: Forall (fun b => b = 0 \/ b = 1) nc).
  { unfold nc. clear - Bc Hp. induction Bc; simpl; constructor; auto using bit_canon. }
  assert (Lnb: length nb = k) by (unfold nb; rewrite map_length; exact Lb).
  assert (Lnc: length nc = k) by (unfold nc; rewrite map_length; exact Lc).
  assert (E: wsum nb 0 = wsum nc 0).
  { generalize (wsum_bound nb Cb) (wsum_bound nc Cc). rewrite Lnb, Lnc. intros R1 R2.
    apply feq_small_eq; try lia.
    rewrite <- (wsum_proper _ _ 0 Fb), <- (wsum_proper _ _ 0 Fc), <- Xb, <- Xc. reflexivity. }
  assert (EQ: nb = nc) by (apply (wsum_inj nb nc 0); try lia; auto).
  rewrite EQ in Fb. clearbody nb nc. clear - Fb Fc.
  revert cs Fc. induction Fb as [|b n bs ns Hbn _ IH]; intros cs Fc; inversion Fc; subst; constructor.
  - etransitivity; [exact Hbn|symmetry; assumption].
  - apply IH. assumption.
Qed.
End F.
