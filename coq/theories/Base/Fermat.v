From Coq Require Import ZArith Lia Znumtheory Zpow_facts.
From mathcomp Require Import all_ssreflect all_fingroup all_algebra all_solvable.
From mathcomp.zify Require Import zify.
Set Warnings "-all".

(* nat-level Fermat *)
Lemma fermat_nat (p a : nat) : prime p -> ~~ (p %| a) -> a ^ (p.-1) = 1 %[mod p].
Proof.
  move=> pp nd. rewrite -(totient_prime pp).
  have co: coprime a p by rewrite coprime_sym prime_coprime.
  exact: (Euler_exp_totient co).
Qed.

(* bridge: Znumtheory.prime -> mathcomp prime *)
Lemma Zprime_natprime (p : Z) : Znumtheory.prime p -> prime (Z.to_nat p).
Proof.
  move=> Hp. have H1 := prime_ge_2 _ Hp.
  apply/primeP; split; first by lia.
  move=> d /dvdnP [k Hk].
  have Hd : (Z.divide (Z.of_nat d) p).
  { exists (Z.of_nat k). lia. }
  have := prime_divisors _ Hp _ Hd.
  move=> [|[|[|]]] H; apply/orP; [lia | left; apply/eqP; lia | right; apply/eqP; lia | lia].
Qed.

Lemma modn_Z (a n : nat) : (0 < n)%N -> Z.of_nat (a %% n) = Z.modulo (Z.of_nat a) (Z.of_nat n).
Proof.
  move=> Hn. have E := divn_eq a n. have L := ltn_pmod a Hn.
  move: E L. set q := (a %/ n)%N. set r := (a %% n)%N. move=> E L.
  apply (Z.mod_unique _ _ (Z.of_nat q)); first by left; lia.
  rewrite {1}E. lia.
Qed.

Lemma expn_Z (a b : nat) : Z.of_nat (a ^ b) = Z.pow (Z.of_nat a) (Z.of_nat b).
Proof. lia. Qed.

Open Scope Z_scope.
Theorem fermat_Z (p x : Z) : Znumtheory.prime p -> x mod p <> 0 -> (x ^ (p - 1)) mod p = 1.
Proof.
  move=> Hp Hx. have H2 := prime_ge_2 _ Hp.
  have pp := Zprime_natprime _ Hp.
  set n := Z.to_nat p. set a := Z.to_nat (x mod p).
  have Hr : 0 <= x mod p < p by apply Z.mod_pos_bound; lia.
  have nd : ~~ (n %| a)%N.
  { apply/negP => /dvdnP [k Hk]. 
    have : (Z.of_nat a = Z.of_nat k * Z.of_nat n) by rewrite Hk; lia.
    rewrite /a /n !Z2Nat.id; try lia. move=> E.
    have: (k = 0)%N \/ (1 <= k)%N by lia. case=> Hk0; [subst k; lia | nia]. }
  have F := fermat_nat n a pp nd.
  have Hn0 : (0 < n)%N by rewrite /n; lia.
  have := f_equal Z.of_nat F.
  rewrite !modn_Z // expn_Z.
  rewrite /a /n. rewrite !Z2Nat.id; try lia.
  have -> : Z.of_nat (Z.to_nat p).-1 = p - 1 by lia.
  rewrite -Zpow_facts.Zpower_mod; last lia.
  move=> ->. rewrite Z.mod_small; lia.
Qed.

Definition finv (p x : Z) : Z := Zpow_facts.Zpow_mod x (p - 2) p.

Theorem finv_correct (p x : Z) : Znumtheory.prime p -> x mod p <> 0 -> (x * finv p x) mod p = 1.
Proof.
  move=> Hp Hx. have H2 := prime_ge_2 _ Hp.
  rewrite /finv Zpow_facts.Zpow_mod_correct; last lia.
  rewrite Zmult_mod_idemp_r.
  have -> : x * x ^ (p - 2) = x ^ (p - 1).
  { have -> : p - 1 = Z.succ (p - 2) by lia. rewrite Z.pow_succ_r; lia. }
  exact: fermat_Z.
Qed.
