From Coq Require Import ZArith Lia.
From mathcomp Require Import all_ssreflect all_fingroup all_algebra all_solvable.
From mathcomp.zify Require Import zify.
Set Warnings "-all".
Set Implicit Arguments. Unset Strict Implicit. Unset Printing Implicit Defensive.

Lemma totient_leq_pred n : 1 < n -> totient n <= n.-1.
Proof.
  move=> n1. rewrite totient_count_coprime.
  rewrite big_mkord.
  have -> : \sum_(i < n) (coprime n i : nat) = \sum_(i < n | coprime n i) 1.
    by rewrite [RHS]big_mkcond /=; apply: eq_bigr => i _; case: (coprime n i).
  rewrite sum1_card.
  have n0 : 0 < n by apply: ltn_trans n1.
  pose z : 'I_n := Ordinal n0.
  have zP : z \notin [pred i : 'I_n | coprime n i].
    by rewrite inE /= /coprime gcdn0; case: (n) n1 => [|[|]].
  have := max_card [pred i : 'I_n | coprime n i].
  rewrite card_ord => le_n.
  rewrite -ltnS prednK //.
  rewrite ltn_neqAle le_n andbT.
  apply/eqP => E.
  have /eqP := E. rewrite -[X in _ == X]card_ord => /eqP E'.
  have := subset_cardP E' (subset_predT _) z. by rewrite (negbTE zP) inE.
Qed.

Lemma totient_pred_prime n : 1 < n -> totient n = n.-1 -> prime n.
Proof.
  move=> n1 tn. apply/idPn => /primePn [| [d /andP [d1 dn] dvd]]; first by rewrite ltnNge n1.
  (* d is a proper divisor: count coprimes misses both 0 and d *)
  have n0 : 0 < n by apply: ltn_trans n1.
  move: tn. rewrite totient_count_coprime big_mkord.
  have -> : \sum_(i < n) (coprime n i : nat) = \sum_(i < n | coprime n i) 1.
    by rewrite [RHS]big_mkcond /=; apply: eq_bigr => i _; case: (coprime n i).
  rewrite sum1_card => E.
  pose z : 'I_n := Ordinal n0. pose dd : 'I_n := Ordinal dn.
  pose P := [pred i : 'I_n | coprime n i].
  have zP : z \notin P by rewrite inE /= /coprime gcdn0; case: (n) n1 => [|[|]].
  have dP : dd \notin P.
    rewrite inE /= /coprime. have /gcdn_idPr -> := dvd. by rewrite neq_ltn d1 orbT.
  have zd : z != dd by rewrite -val_eqE /= neq_ltn (ltn_trans _ d1).
  have : #|P| + #|[predC P]| = n by rewrite cardC card_ord.
  have : 2 <= #|[predC P]|.
    have c2 : #|pred2 z dd| = 2 by rewrite card2 zd.
    rewrite -c2. apply: subset_leq_card. apply/subsetP => x.
    by rewrite !inE => /orP [/eqP ->|/eqP ->].
  move: E n1. move: (#|P|) (#|[predC P]|) => a b. lia.
Qed.

Import GroupScope.
Lemma lucas n a : 1 < n -> a ^ n.-1 = 1 %[mod n] ->
  (forall q, prime q -> q %| n.-1 -> a ^ (n.-1 %/ q) != 1 %[mod n]) -> prime n.
Proof.
  case: n => [|[|n']] // _; set n := n'.+2 => H1 H2.
  have n1 : 1 < n by [].
  have co_a_n : coprime a n.
    have : coprime (a ^ n.-1) n by rewrite -coprime_modl H1 coprime_modl coprime1n.
    by rewrite coprime_pexpl.
  have Ua: coprime n (inZp a : 'I_n) by rewrite coprime_sym coprime_modl.
  pose u := FinRing.unit 'Z_n Ua.
  have uE k : ((u ^+ k)%g == 1%g) = ((a ^ k)%N == 1 %[mod n]).
    by rewrite -2!val_eqE unit_Zp_expg /= -/n modnXm.
  have od : #[u] %| n.-1 by rewrite order_dvdn uE; apply/eqP.
  have oe : #[u] = n.-1.
    apply/eqP; apply/idPn => ne.
    have /dvdnP [m Em] := od.
    have m1 : 1 < m.
      move/eqP: ne => ne. rewrite /n /= in Em ne.
      case: m Em => [|[|m]] // Em; move: Em ne; move: (#[u]) => o; lia.
    pose q := pdiv m.
    have pq : prime q by apply: pdiv_prime.
    have qm : q %| m by apply: pdiv_dvd.
    have qn : q %| n.-1 by rewrite Em dvdn_mulr.
    have := H2 q pq qn. rewrite -uE -order_dvdn Em.
    by rewrite -divn_mulAC // dvdn_mull.
  have : #[u] %| totient n by rewrite -card_units_Zp // order_dvdG ?inE.
  rewrite oe => /dvdn_leq; rewrite totient_gt0 => /(_ isT) le1.
  apply: totient_pred_prime => //. apply/eqP; rewrite eqn_leq le1 andbT.
  exact: totient_leq_pred.
Qed.
