def import_numpy():
    return None
