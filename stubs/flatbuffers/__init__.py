"""Stand-in for the `flatbuffers` Python package (absent from this sandbox and not installable).
Implements the Builder subset that pysnark.zkinterface.backend and its generated accessor modules call,
following the documented FlatBuffers wire format.  See DESIGN.md (C11): this stub is part of the
trusted base of the C11 check; a real `flatbuffers` earlier on sys.path takes precedence."""
from . import number_types, compat
from .builder import Builder
