class Builder:
    def __init__(self, initialSize=1024):
        raise NotImplementedError("flatbuffers stub builder not yet implemented")
