"""Builder: the subset of flatbuffers.Builder that pysnark.zkinterface uses, following the FlatBuffers wire format
(buffer built back to front; scalars little-endian and aligned to their size; vectors = uint32 length + elements;
tables = int32 offset to a vtable (uint16 vtable size, uint16 object size, uint16 field offsets) + fields;
offsets (uoffset) are relative and unsigned; identical vtables are shared)."""
import struct


class Builder(object):
    def __init__(self, initialSize=1024):
        self.Bytes = bytearray(max(0, initialSize))
        self.head = len(self.Bytes)
        self.minalign = 1
        self.nested = False
        self.finished = False
        self.vtables = []
        self.current_vtable = None
        self.objectEnd = None
        self.vectorNumElems = None

    # ---- low level
    def Offset(self): return len(self.Bytes) - self.head

    def _grow(self):
        old = self.Bytes
        n = max(1, len(old)) * 2
        nb = bytearray(n)
        nb[n - len(old):] = old
        self.head += n - len(old)
        self.Bytes = nb

    def Pad(self, n):
        for _ in range(n): self._place(b"\x00")

    def _place(self, bs):
        self.head -= len(bs)
        self.Bytes[self.head:self.head + len(bs)] = bs

    def Prep(self, size, additionalBytes):
        if size > self.minalign: self.minalign = size
        alignSize = (~(len(self.Bytes) - self.head + additionalBytes)) + 1
        alignSize &= (size - 1)
        while self.head < alignSize + size + additionalBytes: self._grow()
        self.Pad(alignSize)

    def _prepend(self, fmt, size, x):
        self.Prep(size, 0)
        self._place(struct.pack(fmt, x))

    def PrependByte(self, x): self._prepend("<B", 1, x)
    PrependUint8 = PrependByte
    def PrependBool(self, x): self._prepend("<B", 1, 1 if x else 0)
    def PrependUint16(self, x): self._prepend("<H", 2, x)
    def PrependUint32(self, x): self._prepend("<I", 4, x)
    def PrependInt32(self, x): self._prepend("<i", 4, x)
    def PrependUint64(self, x): self._prepend("<Q", 8, x)
    def PrependInt64(self, x): self._prepend("<q", 8, x)

    def PrependUOffsetTRelative(self, off):
        self.Prep(4, 0)
        if not (off <= self.Offset()): raise ValueError("offset out of range")
        self._place(struct.pack("<I", self.Offset() - off + 4))

    # ---- vectors
    def StartVector(self, elemSize, numElems, alignment):
        if self.nested: raise RuntimeError("nested construction")
        self.nested = True
        self.vectorNumElems = numElems
        self.Prep(4, elemSize * numElems)
        self.Prep(alignment, elemSize * numElems)
        return self.Offset()

    def EndVector(self, vectorNumElems=None):
        if not self.nested: raise RuntimeError("not in a vector")
        self.nested = False
        n = self.vectorNumElems if vectorNumElems is None else vectorNumElems
        self._place(struct.pack("<I", n))
        return self.Offset()

    # ---- tables
    def StartObject(self, numfields):
        if self.nested: raise RuntimeError("nested construction")
        self.current_vtable = [0] * numfields
        self.objectEnd = self.Offset()
        self.nested = True

    def Slot(self, slotnum): self.current_vtable[slotnum] = self.Offset()

    def PrependUOffsetTRelativeSlot(self, o, x, d):
        if x != d:
            self.PrependUOffsetTRelative(x); self.Slot(o)

    def PrependUint64Slot(self, o, x, d):
        if x != d:
            self.PrependUint64(x); self.Slot(o)

    def PrependUint8Slot(self, o, x, d):
        if x != d:
            self.PrependUint8(x); self.Slot(o)

    def PrependBoolSlot(self, o, x, d):
        if x != d:
            self.PrependBool(x); self.Slot(o)

    def EndObject(self):
        if not self.nested: raise RuntimeError("not in an object")
        self.nested = False
        # placeholder for the offset to the vtable
        self.PrependInt32(0)
        objectOffset = self.Offset()
        vt = list(self.current_vtable)
        while vt and vt[-1] == 0: vt.pop()
        fields = [(objectOffset - f) if f != 0 else 0 for f in vt]
        objectSize = objectOffset - self.objectEnd
        image = struct.pack("<HH", (len(fields) + 2) * 2, objectSize) + b"".join(struct.pack("<H", f) for f in fields)
        existing = None
        for off in reversed(self.vtables):
            start = len(self.Bytes) - off
            if bytes(self.Bytes[start:start + len(image)]) == image and struct.unpack_from("<H", self.Bytes, start)[0] == len(image):
                existing = off; break
        objectStart = len(self.Bytes) - objectOffset
        if existing is None:
            for f in reversed(fields): self.PrependUint16(f)
            self.PrependUint16(objectSize)
            self.PrependUint16((len(fields) + 2) * 2)
            # the buffer may have grown (at the front) while the vtable was written: locate the object again
            struct.pack_into("<i", self.Bytes, len(self.Bytes) - objectOffset, self.Offset() - objectOffset)
            self.vtables.append(self.Offset())
        else:
            struct.pack_into("<i", self.Bytes, objectStart, existing - objectOffset)
        self.current_vtable = None
        return objectOffset

    # ---- finish
    def _finish(self, rootTable, sizePrefix):
        prepSize = 4 + (4 if sizePrefix else 0)
        self.Prep(self.minalign, prepSize)
        self.PrependUOffsetTRelative(rootTable)
        if sizePrefix:
            self.PrependInt32(len(self.Bytes) - self.head)
        self.finished = True
        return self.head

    def Finish(self, rootTable): return self._finish(rootTable, False)
    def FinishSizePrefixed(self, rootTable): return self._finish(rootTable, True)

    def Output(self):
        if not self.finished: raise RuntimeError("not finished")
        return self.Bytes[self.head:]
