class _Flags:
    def __init__(self, bytewidth): self.bytewidth = bytewidth
    @staticmethod
    def py_type(x): return int(x)
UOffsetTFlags = _Flags(4); SOffsetTFlags = _Flags(4); VOffsetTFlags = _Flags(2)
Uint8Flags = _Flags(1); Uint16Flags = _Flags(2); Uint32Flags = _Flags(4); Uint64Flags = _Flags(8)
Int8Flags = _Flags(1); BoolFlags = _Flags(1)
